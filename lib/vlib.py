"""Shared plumbing for /verif/bin/check: TLC runs, Go harness builds, evidence, verdicts.

Verdict rule (DESIGN 2.1): a VIOLATION is reported only from behaviour observed on the real
code (outside the property layer's Allowed set, or a property-layer trace rejection).  Tool
failures (TLC crash, build failure, timeout, OOM) are INCONCLUSIVE (exit 2), never violations.
"""
import json
import os
import re
import shutil
import subprocess
import sys
import time
import glob

VERIF = os.path.dirname(os.path.dirname(os.path.abspath(__file__)))
REPO = os.environ.get("VERIF_REPO", "/repo")
SPEC = os.path.join(VERIF, "spec")
HARNESS = os.path.join(VERIF, "harness")
WORK = os.path.join(VERIF, ".work")
EVID = os.path.join(VERIF, "evidence")
REPLAYS = os.path.join(VERIF, "replays")
TLA_JAR = "/opt/veriftools/tla/tla2tools.jar:/opt/veriftools/tla/CommunityModules-deps.jar"


class Inconclusive(Exception):
    pass


def log(*a):
    print(*a, flush=True)


def seed():
    try:
        return int(os.environ.get("VERIF_SEED", "1"))
    except ValueError:
        return 1


# ---------------------------------------------------------------- Go toolchain

def go_bin():
    cands = glob.glob(os.path.expanduser(
        "~/go/pkg/mod/golang.org/toolchain@v0.0.1-go1.25.7.linux-amd64/bin/go"))
    cands += glob.glob("/root/go/pkg/mod/golang.org/toolchain@v0.0.1-go1.25.7.linux-amd64/bin/go")
    for c in cands:
        if os.path.exists(c):
            return c
    return None


def go_env():
    env = dict(os.environ)
    env["GOFLAGS"] = "-mod=mod"
    env["GOPROXY"] = "off"
    gb = go_bin()
    if gb:
        env["GOTOOLCHAIN"] = "local"
        env["GOSUMDB"] = "off"
        env["PATH"] = os.path.dirname(gb) + ":" + env.get("PATH", "")
    else:
        env.pop("GOSUMDB", None)
        env["GOTOOLCHAIN"] = "auto"
    env.setdefault("GOCACHE", os.path.expanduser("~/.cache/go-build"))
    return env


def gen_gomod():
    """Regenerate harness/go.mod from /repo/go.mod (same requirement set + replace)."""
    src = open(os.path.join(REPO, "go.mod")).read()
    out = []
    for line in src.splitlines():
        if line.startswith("module "):
            out.append("module verifharness")
        elif line.startswith("retract") or line.startswith("// History"):
            continue
        else:
            out.append(line)
    out.append("")
    out.append("require github.com/celestiaorg/go-header v0.0.0")
    out.append("require pgregory.net/rapid v1.3.0")
    out.append("replace github.com/celestiaorg/go-header => " + REPO)
    new = "\n".join(out) + "\n"
    p = os.path.join(HARNESS, "go.mod")
    old = open(p).read() if os.path.exists(p) else None
    sums = open(os.path.join(REPO, "go.sum")).read()
    extra = ""
    rs = os.path.join(VERIF, "lib", "extra.go.sum")
    if os.path.exists(rs):
        extra = open(rs).read()
    # only rewrite when the requirement block of /repo changed (go may have normalised our file)
    stamp = os.path.join(HARNESS, ".gomod.src")
    prev = open(stamp).read() if os.path.exists(stamp) else None
    if prev != new or old is None:
        open(p, "w").write(new)
        open(stamp, "w").write(new)
    open(os.path.join(HARNESS, "go.sum"), "w").write(sums + extra)


def go_build_test(pkg, out, tags="verif", race=False, timeout=900):
    """go test -c the harness package against /repo's working tree."""
    gen_gomod()
    os.makedirs(os.path.dirname(out), exist_ok=True)
    cmd = ["go", "test", "-c", "-vet=off", "-tags", tags, "-o", out]
    if race:
        cmd.append("-race")
    cmd.append("./" + pkg)
    t0 = time.time()
    r = subprocess.run(cmd, cwd=HARNESS, env=go_env(), capture_output=True, text=True, timeout=timeout)
    if r.returncode != 0:
        raise Inconclusive("harness does not build against /repo:\n" + r.stdout[-4000:] + r.stderr[-6000:])
    return time.time() - t0


def run_bin(binpath, args, env_extra=None, timeout=3600, cwd=None):
    env = go_env()
    if env_extra:
        env.update({k: str(v) for k, v in env_extra.items()})
    r = subprocess.run([binpath] + args, env=env, capture_output=True, text=True, timeout=timeout,
                       cwd=cwd or os.path.dirname(binpath))
    return r


# ---------------------------------------------------------------- TLC

class TLCResult:
    def __init__(self):
        self.stdout = ""
        self.generated = 0
        self.distinct = 0
        self.depth = 0
        self.exported = []
        self.ok = False          # "No error has been found"
        self.violated = None     # name of violated invariant/property or None
        self.error = None        # tool-level error text
        self.wall = 0.0
        self.coverage_zero = []


def workdir(pid, sub=None, wipe=False):
    d = os.path.join(WORK, pid) if sub is None else os.path.join(WORK, pid, sub)
    if wipe and os.path.exists(d):
        shutil.rmtree(d, ignore_errors=True)
    os.makedirs(d, exist_ok=True)
    return d


def tlc(pid, name, module, cfg, workers=None, simulate=None, depth=None, extra=None, timeout=1800,
        env_extra=None, heap="8g", export_key=None, keep_stdout=True, dfs=False, constants=None,
        coverage=False):
    """Run TLC on spec/<module>.tla with spec/<cfg> in a scratch dir.  Lines that are JSON string
    literals (PrintT(ToJson(..))) are decoded and collected in .exported (optionally only those
    whose "k" field equals export_key)."""
    d = workdir(pid, "tlc_" + name, wipe=True)
    for f in os.listdir(SPEC):
        if f.endswith(".tla") or f.endswith(".cfg"):
            shutil.copy(os.path.join(SPEC, f), d)
    cfgpath = os.path.join(d, cfg)
    if constants:
        txt = open(cfgpath).read()
        for k, v in constants.items():
            txt, n = re.subn(r"(?m)^(\s*%s\s*=\s*).*$" % re.escape(k), r"\g<1>%s" % v, txt)
            if n == 0:
                txt += "\nCONSTANT %s = %s\n" % (k, v)
        open(cfgpath, "w").write(txt)
    jopts = "-Xmx%s -Xss64m" % heap
    if dfs:
        jopts += " -Dtlc2.tool.queue.IStateQueue=StateDeque"
    cmd = ["java", "-XX:+UseParallelGC"] + jopts.split() + ["-cp", TLA_JAR, "tlc2.TLC"]
    w = workers if workers is not None else min(16, os.cpu_count() or 4)
    cmd += ["-workers", str(w), "-metadir", os.path.join(d, "md"), "-config", cfg]
    if simulate:
        cmd += ["-simulate", simulate]
    if depth:
        cmd += ["-depth", str(depth)]
    if coverage:
        cmd += ["-coverage", "1"]
    cmd += ["-seed", str(seed())]
    if extra:
        cmd += extra
    cmd += [module + ".tla"]
    env = dict(os.environ)
    env.pop("JAVA_TOOL_OPTIONS", None)
    if env_extra:
        env.update({k: str(v) for k, v in env_extra.items()})
    res = TLCResult()
    t0 = time.time()
    outpath = os.path.join(d, "stdout.txt")
    try:
        with open(outpath, "w") as fo:
            p = subprocess.run(cmd, cwd=d, env=env, stdout=fo, stderr=subprocess.STDOUT, timeout=timeout)
        rc = p.returncode
    except subprocess.TimeoutExpired:
        res.error = "TLC timeout after %ss" % timeout
        rc = -1
    res.wall = time.time() - t0
    exported = []
    tail = []
    with open(outpath, errors="replace") as fi:
        for line in fi:
            if line.startswith('"{'):
                try:
                    rec = json.loads(json.loads(line))
                except Exception:
                    continue
                if export_key is None or rec.get("k") == export_key:
                    exported.append(rec)
                continue
            tail.append(line)
            if len(tail) > 4000:
                tail = tail[-2000:]
    txt = "".join(tail)
    res.stdout = txt
    res.exported = exported
    m = re.search(r"(\d+) states generated, (\d+) distinct states found", txt)
    if m:
        res.generated, res.distinct = int(m.group(1)), int(m.group(2))
    m = re.search(r"The number of states generated: (\d+)", txt)
    if m and not res.generated:
        res.generated = int(m.group(1))
        res.distinct = res.generated
    m = re.search(r"depth of the complete state graph search is (\d+)", txt)
    if m:
        res.depth = int(m.group(1))
    if "No error has been found" in txt or (simulate and rc == 0 and "Error:" not in txt):
        res.ok = True
    m = re.search(r"Invariant (\S+) is violated", txt)
    if m:
        res.violated = m.group(1)
    m = re.search(r"Action property (\S+) is violated|Temporal properties were violated", txt)
    if m and not res.violated:
        res.violated = m.group(1) or "temporal"
    if not res.ok and not res.violated and res.error is None:
        res.error = "TLC failed (rc=%s): %s" % (rc, txt[-3000:])
    if coverage:
        res.coverage_zero = re.findall(r"(?m)^<(\w+) line .*>: 0:0$", txt)
    return res


def require_tlc_ok(res, what):
    if res.error:
        raise Inconclusive("%s: %s" % (what, res.error))
    if res.violated:
        raise Inconclusive("%s: design-level TLC counterexample (%s) — the specification of the current tree "
                           "does not satisfy the property layer; not a code observation.\n%s"
                           % (what, res.violated, res.stdout[-3000:]))
    if not res.ok:
        raise Inconclusive("%s: TLC did not finish cleanly\n%s" % (what, res.stdout[-2000:]))


# ---------------------------------------------------------------- known findings / evidence / verdict

def load_known():
    p = os.path.join(VERIF, "known_findings.json")
    if not os.path.exists(p):
        return []
    return json.load(open(p)).get("findings", [])


def match_known(pid, sig):
    """sig: dict describing the cause of a violation. A known finding matches when it is 'open'
    (not fixed), has the same property and every key of its signature equals the observed one."""
    for f in load_known():
        if f.get("status") != "open":
            continue
        if pid not in f.get("properties", [f.get("property")]):
            continue
        fs = f.get("signature", {})
        if all(sig.get(k) == v for k, v in fs.items()):
            return f
    return None


class Run:
    """Accumulates the result of one `check <ID> <tier>` run."""

    def __init__(self, pid, tier):
        self.pid = pid
        self.tier = tier
        self.t0 = time.time()
        self.cov = {"states": 0, "transitions": 0, "traces_validated_against_impl": 0, "samples": [],
                    "evaluations": 0, "distinct_nontrivial": 0, "rule": "", "exhaustive": False,
                    "tlc_runs": [], "drift": [], "known_findings_seen": []}
        self.assumptions = []
        self.violations = []   # (sig, detail)
        self.known_hits = {}
        self.inconclusive = None

    def add_tlc(self, name, res):
        self.cov["states"] += res.distinct
        self.cov["transitions"] += res.generated
        self.cov["tlc_runs"].append({"name": name, "distinct": res.distinct, "generated": res.generated,
                                     "depth": res.depth, "wall_s": round(res.wall, 2),
                                     "exported": len(res.exported)})

    def sample(self, s, limit=6):
        if len(self.cov["samples"]) < limit:
            self.cov["samples"].append(s)

    def violation(self, sig, detail):
        k = match_known(self.pid, sig)
        if k is not None:
            key = k["id"]
            if key not in self.known_hits:
                self.known_hits[key] = {"finding": k, "count": 0, "example": detail}
            self.known_hits[key]["count"] += 1
            return False
        self.violations.append((sig, detail))
        return True

    def drift(self, note):
        if len(self.cov["drift"]) < 20:
            self.cov["drift"].append(note)

    def finish(self):
        os.makedirs(EVID, exist_ok=True)
        for key, kh in self.known_hits.items():
            f = kh["finding"]
            log("KNOWN-FINDING: property=%s %s [%s, %d occurrence(s)]" % (self.pid, f["what"], key, kh["count"]))
            self.cov["known_findings_seen"].append({"id": key, "count": kh["count"]})
        rc = 0
        if self.violations:
            os.makedirs(REPLAYS, exist_ok=True)
            path = os.path.join(REPLAYS, "%s_%s_%d.json" % (self.pid, self.tier, seed()))
            json.dump({"property": self.pid, "tier": self.tier, "seed": seed(),
                       "violations": [{"signature": s, "detail": d} for s, d in self.violations[:50]]},
                      open(path, "w"), indent=1, default=str)
            log("VIOLATION property=%s replay=%s" % (self.pid, path))
            for s, d in self.violations[:5]:
                log("  cause:", json.dumps(s, default=str)[:600])
            rc = 1
        for d in self.cov["drift"][:5]:
            log("MODEL-DRIFT property=%s %s" % (self.pid, d))
        ev = {
            "property_id": self.pid, "tier": self.tier, "seed": seed(), "level": "model_checking",
            "coverage": self.cov, "assumptions": self.assumptions,
            "wall_s": round(time.time() - self.t0, 2), "violations": len(self.violations),
        }
        if ev["coverage"]["states"] < 1 or ev["coverage"]["transitions"] < 1 or not ev["coverage"]["samples"]:
            # never write an evidence file claiming model checking without a TLC run
            ev["level"] = "other"
            ev["coverage"]["explanation"] = "run did not reach the model-checking stage"
        json.dump(ev, open(os.path.join(EVID, self.pid + ".json"), "w"), indent=1, default=str)
        return rc


def read_ndjson(path):
    out = []
    if not os.path.exists(path):
        return out
    with open(path) as f:
        for line in f:
            line = line.strip()
            if line:
                try:
                    out.append(json.loads(line))
                except ValueError:
                    pass   # truncated last line of a driver that died
    return out


def write_ndjson(path, recs):
    with open(path, "w") as f:
        for r in recs:
            f.write(json.dumps(r, separators=(",", ":")) + "\n")
