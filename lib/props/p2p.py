"""p2p families — C10 (server), C11 (subscriber), C13 (Get/GetByHeight), C09 (Head), C05/C18 (range sessions)."""
import os, random, collections, json, concurrent.futures
import vlib
from . import register
from .common import fold


def table_flow(run, module, cfg, key, test, trace_module, prefixes, constants=None, shards=4, sample_key=None,
               extra_cases=None, race=False, timeout=3000, workers=4, env=None, sig_fn=None):
    """decision-table pattern: TLC checks the table, every case is executed by harness/p2ph <test>, the
    recorded observations are judged by <trace_module> (property layer in TLA+)."""
    pid = run.pid
    res = vlib.tlc(pid, "table", module, cfg, export_key=key, workers=workers, constants=constants, timeout=timeout)
    vlib.require_tlc_ok(res, "%s %s" % (module, cfg))
    run.add_tlc("%s (%s): decision table" % (module, cfg), res)
    cases = res.exported + (extra_cases or [])
    for i, c in enumerate(cases):
        c["id"] = i
    return cases, judge(run, cases, test, trace_module, prefixes, shards=shards, env=env, sig_fn=sig_fn)


def judge(run, cases, test, trace_module, prefixes, shards=4, env=None, sig_fn=None, pkg="p2ph"):
    pid = run.pid
    wd = vlib.workdir(pid)
    binp = os.path.join(wd, pkg + ".test")
    vlib.go_build_test(pkg, binp)
    shards = max(1, min(shards, len(cases)))

    def one(si):
        part = cases[si::shards]
        cp, op, tp = [os.path.join(wd, "%s_%s_%d.ndjson" % (test, n, si)) for n in ("cases", "out", "trace")]
        vlib.write_ndjson(cp, part)
        for p in (op, tp):
            if os.path.exists(p):
                os.remove(p)
        e = {"VH_CASES": cp, "VH_OUT": op, "VH_TRACE": tp, "GOLOG_LOG_LEVEL": "fatal", "VERIF_SEED": vlib.seed(), "VERIF_TIER": run.tier}
        e.update(env or {})
        r = vlib.run_bin(binp, ["-test.run", "^%s$" % test, "-test.timeout", "3000s", "-test.count", "1"], env_extra=e, timeout=3100)
        recs = vlib.read_ndjson(op)
        crash = None
        if r.returncode != 0:
            crash = r.stdout[-3000:] + r.stderr[-3000:]
        n = sum(1 for _ in open(tp)) if os.path.exists(tp) else 0
        fails, tv = [], None
        if n:
            tv = vlib.tlc(pid, "tv_%s_%d" % (test, si), trace_module, trace_module + ".cfg", workers=1, env_extra={"TRACE": tp},
                          export_key="FAIL", heap="2g")
            if tv.error or not tv.ok:
                raise vlib.Inconclusive("trace evaluation failed: %s" % ((tv.error or tv.stdout)[-2000:]))
            fails = tv.exported
        return part, recs, crash, n, fails, tv

    with concurrent.futures.ThreadPoolExecutor(max_workers=shards) as ex:
        outs = list(ex.map(one, range(shards)))
    by_id = {c["id"]: c for c in cases}
    cnt = collections.Counter()
    results = []
    nrec = 0
    for part, recs, crash, n, fails, tv in outs:
        if crash is not None:
            done = {r["id"] for r in recs}
            nxt = [c for c in part if c["id"] not in done]
            if ("panic:" in crash or "fatal error:" in crash) and ("go-header" in crash or "/repo/" in crash) and nxt:
                run.violation({"family": pid, "symptom": "process_crash"},
                              "process crashed inside go-header while running case %s\n%s" % (json.dumps(nxt[0])[:800], crash[-2000:]))
            else:
                raise vlib.Inconclusive("driver %s failed:\n%s" % (test, crash))
        results.extend(recs)
        nrec += n
        if tv:
            run.cov["states"] += tv.distinct
            run.cov["transitions"] += tv.generated
        for f in fails:
            c = by_id.get(f["tr"], {})
            for p in f["preds"]:
                if not p.startswith(tuple(prefixes)):
                    continue
                cnt[p] += 1
                sig = {"family": pid, "pred": p}
                if sig_fn:
                    sig.update(sig_fn(c, f))
                run.violation(sig, "clause %s fails for case %s" % (p, json.dumps({k: v for k, v in c.items() if k not in ("allowed",)})[:900]))
    fold(run, results)
    run.cov["records_judged"] = nrec
    run.cov["failed_clauses"] = dict(cnt)
    return results


@register("C10")
def c10(run):
    rnd = random.Random(vlib.seed())
    extra = []
    nrand = 60 if run.tier == "quick" else 1500
    for i in range(nrand):   # byte-level catalogue: more random / truncated payloads
        extra.append({"k": "C10", "in": {"kind": "garbage", "tail": 1, "head": 4, "origin": 0, "amount": 0, "hk": "", "g": rnd.choice(["random", "truncated", "oversize"])},
                      "predicted": {"status": "reset", "heights": [], "spans": []}, "from_tlc": False})
    cases, _ = table_flow(run, "Server", "Server.cfg", "C10", "TestServer", "ServerTrace", ["C10_"], extra_cases=extra,
                          sig_fn=lambda c, f: {"kind": c.get("in", {}).get("kind"), "below_tail": c.get("in", {}).get("origin", 0) < c.get("in", {}).get("tail", 0)})
    for c in cases[:2] + cases[200:202]:
        run.sample({"in": c["in"], "predicted": c["predicted"]})
    run.cov["exhaustive"] = True
    run.cov["rule"] = ("every row of Server.tla's table (tail x head x origin class x amount class, hash kinds, garbage classes; uint64 modelled "
                       "mod 1024) is one request sent on a raw stream to the real ExchangeServer over a real pruned Store behind a recording proxy; "
                       "plus seeded random byte payloads; non-trivial = not answered with OK; distinct = distinct request")
    run.assumptions += ["mocknet streams ignore deadlines: the hang clause is decided by virtual time (a request unanswered after 3 virtual minutes at quiescence)",
                        "byte-level decoding is covered by a finite catalogue + seeded random strings, not exhaustively"]
