"""p2p families — C10 (server), C11 (subscriber), C13 (Get/GetByHeight), C09 (Head), C05/C18 (range sessions)."""
import os, random, collections, json, concurrent.futures
import vlib
from . import register
from .common import fold


def table_flow(run, module, cfg, key, test, trace_module, prefixes, constants=None, shards=4, sample_key=None,
               extra_cases=None, race=False, timeout=3000, workers=4, env=None, sig_fn=None, derive=None):
    """decision-table pattern: TLC checks the table, every case is executed by harness/p2ph <test>, the
    recorded observations are judged by <trace_module> (property layer in TLA+)."""
    pid = run.pid
    res = vlib.tlc(pid, "table", module, cfg, export_key=key, workers=workers, constants=constants, timeout=timeout)
    vlib.require_tlc_ok(res, "%s %s" % (module, cfg))
    run.add_tlc("%s (%s): decision table" % (module, cfg), res)
    cases = res.exported + (extra_cases or [])
    if derive:
        cases = cases + derive(res.exported)      # replay-only variants of the table's rows (same prediction)
    for i, c in enumerate(cases):
        c["id"] = i
    return cases, judge(run, cases, test, trace_module, prefixes, shards=shards, env=env, sig_fn=sig_fn)


def judge(run, cases, test, trace_module, prefixes, shards=4, env=None, sig_fn=None, pkg="p2ph", drift_prefixes=()):
    pid = run.pid
    wd = vlib.workdir(pid)
    binp = os.path.join(wd, pkg + ".test")
    vlib.go_build_test(pkg, binp)
    shards = max(1, min(shards, len(cases)))
    tmo = 600 if run.tier == "quick" else 3000

    def one(si):
        part = cases[si::shards]
        cp, op, tp = [os.path.join(wd, "%s_%s_%d.ndjson" % (test, n, si)) for n in ("cases", "out", "trace")]
        vlib.write_ndjson(cp, part)
        for p in (op, tp):
            if os.path.exists(p):
                os.remove(p)
        e = {"VH_CASES": cp, "VH_OUT": op, "VH_TRACE": tp, "GOLOG_LOG_LEVEL": "error", "VERIF_SEED": vlib.seed(), "VERIF_TIER": run.tier}
        e.update(env or {})
        r = vlib.run_bin(binp, ["-test.run", "^%s$" % test, "-test.timeout", "%ds" % tmo, "-test.count", "1"], env_extra=e, timeout=tmo + 60)
        recs = vlib.read_ndjson(op)
        crash = None
        if r.returncode != 0:
            crash = r.stdout[-3000:] + r.stderr[-3000:]
        n = sum(1 for _ in open(tp)) if os.path.exists(tp) else 0
        fails, tv = [], None
        if n:
            tv = vlib.tlc(pid, "tv_%s_%d" % (test, si), trace_module, trace_module + ".cfg", workers=1, env_extra={"TRACE": tp},
                          export_key="FAIL", heap="2g")
            if tv.error or not tv.ok:
                raise vlib.Inconclusive("trace evaluation failed: %s" % ((tv.error or tv.stdout)[-2000:]))
            fails = tv.exported
        return part, recs, crash, n, fails, tv

    with concurrent.futures.ThreadPoolExecutor(max_workers=shards) as ex:
        outs = list(ex.map(one, range(shards)))
    by_id = {c["id"]: c for c in cases}
    cnt = collections.Counter()
    results = []
    nrec = 0
    for part, recs, crash, n, fails, tv in outs:
        if crash is not None:
            done = {r["id"] for r in recs}
            nxt = [c for c in part if c["id"] not in done]
            if "VH-LIVELOCK" in crash and nxt:
                # the driver's real-time watchdog: the call under test spun without returning or blocking
                run.violation({"family": pid, "symptom": "livelock"},
                              "the call neither returned nor blocked (it spins; no virtual time passes) in case %s\n%s"
                              % (json.dumps(nxt[0])[:800], crash[-600:]))
            elif ("panic:" in crash or "fatal error:" in crash) and ("go-header" in crash or "/repo/" in crash) and nxt:
                run.violation({"family": pid, "symptom": "process_crash"},
                              "process crashed inside go-header while running case %s\n%s" % (json.dumps(nxt[0])[:800], crash[-2000:]))
            else:
                raise vlib.Inconclusive("driver %s failed:\n%s" % (test, crash))
        results.extend(recs)
        nrec += n
        if tv:
            run.cov["states"] += tv.distinct
            run.cov["transitions"] += tv.generated
        for f in fails:
            c = by_id.get(f["tr"], {})
            for p in f["preds"]:
                if drift_prefixes and p.startswith(tuple(drift_prefixes)):
                    # a clause of the surrounding specification that is not part of the listed property: reported, no verdict
                    run.drift("clause %s fails for case %s" % (p, json.dumps(c)[:600]))
                    cnt["(drift) " + p] += 1
                    continue
                if not p.startswith(tuple(prefixes)):
                    continue
                cnt[p] += 1
                sig = {"family": pid, "pred": p}
                if sig_fn:
                    sig.update(sig_fn(c, f))
                run.violation(sig, "clause %s fails for case %s" % (p, json.dumps({k: v for k, v in c.items() if k not in ("allowed",)})[:900]))
    fold(run, results)
    run.cov["records_judged"] = run.cov.get("records_judged", 0) + nrec
    fc = dict(run.cov.get("failed_clauses", {}))
    for k2, v2 in cnt.items():
        fc[k2] = fc.get(k2, 0) + v2
    run.cov["failed_clauses"] = fc
    return results


@register("C10")
def c10(run):
    rnd = random.Random(vlib.seed())
    extra = []
    nrand = 60 if run.tier == "quick" else 1500
    for i in range(nrand):   # byte-level catalogue: more random / truncated payloads
        extra.append({"k": "C10", "in": {"kind": "garbage", "tail": 1, "head": 4, "origin": 0, "amount": 0, "hk": "", "g": rnd.choice(["random", "truncated", "oversize"])},
                      "predicted": {"status": "reset", "heights": [], "spans": []}, "from_tlc": False})
    # a stalled store (every read blocks until its context ends): the stream must be answered or reset within RequestTimeout
    for kind, origin, amount, hk in (("range", 2, 2, ""), ("range", 0, 1, ""), ("range", 3, 1, ""), ("hash", 0, 1, "known"), ("hash", 0, 1, "unknown")):
        extra.append({"k": "C10", "in": {"kind": kind, "tail": 1, "head": 4, "origin": origin, "amount": amount, "hk": hk, "g": "", "stall": True},
                      "predicted": {"status": "reset", "heights": [], "spans": []}, "from_tlc": False})
    def fprune(rows):
        # replay-only variant of the rows over a pruned store: the pruning was interrupted by a datastore fault inside the
        # deletion of the header right under the tail and retried; a by-hash request for an unknown hash asks for that header
        import copy
        out = []
        for c in rows:
            if c["in"]["tail"] > 2 and c["in"]["head"] < 20:
                c2 = copy.deepcopy(c)
                c2["in"]["fprune"] = True
                out.append(c2)
        return out
    cases, _ = table_flow(run, "Server", "Server.cfg", "C10", "TestServer", "ServerTrace", ["C10_"], extra_cases=extra, derive=fprune,
                          sig_fn=lambda c, f: {"kind": c.get("in", {}).get("kind"), "below_tail": c.get("in", {}).get("origin", 0) < c.get("in", {}).get("tail", 0)})
    # the store changes between two store calls of one request (ServerConc.tla): self-test first — the handler variant that
    # decides "below the tail" by a second HasAt(from) must be refuted by TLC — then every row on the real server
    bad = vlib.tlc(run.pid, "conc_bad", "ServerConc", "ServerConcBad.cfg", workers=2, timeout=600)
    if bad.error or "PredictedAllowed" not in (bad.violated or ""):
        raise vlib.Inconclusive("self-test: ServerConc.tla variant hasAtFrom was not refuted (%s)" % (bad.error or bad.violated))
    run.cov["serverconc_selftest"] = "variant hasAtFrom refuted (PredictedAllowed)"
    conc_cases, _ = table_flow(run, "ServerConc", "ServerConc.cfg", "C10C", "TestServerConc", "ServerConcTrace", ["C10_"], shards=8,
                               sig_fn=lambda c, f: {"kind": "range+mutation", "m": c.get("in", {}).get("m")})
    run.cov["serverconc_rows"] = len(conc_cases)
    # a peer that drains the answer slowly, over a stream that honours deadlines (mocknet's do not): the handler is done
    # within RequestTimeout + WriteDeadline however many responses the answer has
    judge(run, [{"id": 0, "from_tlc": False}], "TestServerDeadline", "ServerDeadlineTrace", ["C10_"], shards=1)
    for c in cases[:2] + cases[200:202]:
        run.sample({"in": c["in"], "predicted": c["predicted"]})
    run.cov["exhaustive"] = True
    run.cov["rule"] = ("every row of Server.tla's table (tail x head x origin class x amount class, hash kinds, garbage classes; uint64 modelled "
                       "mod 1024) is one request sent on a raw stream to the real ExchangeServer over a real pruned Store behind a recording proxy; "
                       "plus seeded random byte payloads; non-trivial = not answered with OK; distinct = distinct request")
    run.assumptions += ["mocknet streams ignore deadlines: the hang clause is decided by virtual time (a request unanswered after 3 virtual minutes at quiescence)",
                        "byte-level decoding is covered by a finite catalogue + seeded random strings, not exhaustively"]


def late_registration(run):
    """SubscriberReg.tla (validators parked on the semaphore, SetVerifier's two steps) + its replay: 3 x 24 valid messages
    wait for the verifier, SetVerifier registers one that returns nil; every message must be accepted / delivered / relayed
    (SubscriberTrace.tla), and the hand-over itself is checked by the Go race detector: its happens-before analysis decides
    PublishedBeforeRelease for the real code independently of the order the goroutines happened to run in."""
    import re
    pid = run.pid
    res = vlib.tlc(pid, "reg", "SubscriberReg", "SubscriberReg.cfg", workers=2, timeout=600)
    vlib.require_tlc_ok(res, "SubscriberReg.tla")
    run.add_tlc("SubscriberReg.tla: 3 waiting validators x SetVerifier (ConsultsRegistered, PublishedBeforeRelease, AllJudged)", res)
    bad = vlib.tlc(pid, "regbad", "SubscriberReg", "SubscriberRegBad.cfg", workers=2, timeout=600)
    if bad.violated != "ConsultsRegistered":
        raise vlib.Inconclusive("SubscriberReg.tla self-test: the close-before-write order was not refuted (%s)" % (bad.error or bad.violated))
    wd = vlib.workdir(pid)
    binp = os.path.join(wd, "p2ph_race.test")
    vlib.go_build_test("p2ph", binp, race=True)
    cp, op, tp = [os.path.join(wd, "late_%s.ndjson" % n) for n in ("cases", "out", "trace")]
    vlib.write_ndjson(cp, [{"id": 0}])
    for p_ in (op, tp):
        if os.path.exists(p_):
            os.remove(p_)
    r = vlib.run_bin(binp, ["-test.run", "^TestSubscriberLate$", "-test.timeout", "900s", "-test.count", "1"],
                     env_extra={"VH_CASES": cp, "VH_OUT": op, "VH_TRACE": tp, "GOLOG_LOG_LEVEL": "error", "VERIF_SEED": vlib.seed(),
                                "GORACE": "halt_on_error=0 exitcode=0"}, timeout=1000)
    txt = r.stdout + r.stderr
    # race reports that involve the Subscriber's own code (reports inside third-party packages are not ours to judge)
    blocks = [b for b in txt.split("WARNING: DATA RACE")[1:] if "go-header/p2p.(*Subscriber" in b.split("==================")[0]]
    # (the testing package fails a test during which a race was reported: a non-zero exit with such a report is a result)
    if (r.returncode != 0 and not blocks) or not os.path.exists(tp):
        raise vlib.Inconclusive("late-registration driver failed:\n" + txt[-3000:])
    run.cov["late_registration_messages"] = sum(1 for _ in open(tp))
    run.cov["late_registration_race_reports"] = len(blocks)
    if blocks:
        run.violation({"family": "C11", "pred": "C11_verifier_published_before_waiting_validators_are_released", "oracle": "race-detector"},
                      "SetVerifier / verifyMessage hand-over of the verifier is not ordered (race detector, real run of 72 waiting "
                      "validators):\n" + blocks[0][:1800])
    tv = vlib.tlc(pid, "tv_late", "SubscriberTrace", "SubscriberTrace.cfg", workers=1, env_extra={"TRACE": tp}, export_key="FAIL", heap="2g")
    if tv.error or not tv.ok:
        raise vlib.Inconclusive("trace evaluation failed: %s" % ((tv.error or tv.stdout)[-2000:]))
    run.cov["evaluations"] = run.cov.get("evaluations", 0) + max(0, tv.distinct - 1)
    run.cov["traces_validated_against_impl"] = run.cov.get("traces_validated_against_impl", 0) + max(0, tv.distinct - 1)
    for f in tv.exported:
        for p_ in f["preds"]:
            if p_.startswith("C11_"):
                run.violation({"family": "C11", "pred": p_, "mode": "late-registration"},
                              "clause %s fails for a message that waited for SetVerifier (record %s)" % (p_, f["tr"]))


@register("C11")
def c11(run):
    def with_metrics(rows):
        import copy
        out = []
        for c in rows:
            if c["in"]["verifier"] != "notset":
                c2 = copy.deepcopy(c)
                c2["in"]["metrics"] = True
                out.append(c2)
            if c["in"]["payload"] == "valid" and c["in"]["verifier"] in ("soft", "wrapSoft", "hard", "plain"):
                # replay-only (same prediction): the header of the message accepted right before arrives once more in a
                # distinct message and is refused by the verifier this time
                c4 = copy.deepcopy(c)
                c4["in"]["again"] = True
                out.append(c4)
            if c["in"]["payload"] in ("invalid", "localInvalid", "undecodable"):
                # replay-only: the header type reports its own Validate / decode failure as a soft VerifyError (still a reject)
                c3 = copy.deepcopy(c)
                c3["in"]["softErr"] = True
                out.append(c3)
        return out
    cases, _ = table_flow(run, "Subscriber", "Subscriber.cfg", "C11", "TestSubscriber", "SubscriberTrace", ["C11_"], shards=2,
                          derive=with_metrics)
    late_registration(run)
    for c in cases[:3]:
        run.sample({"in": c["in"], "predicted": c["predicted"]})
    run.cov["exhaustive"] = True
    run.cov["rule"] = ("every (payload class x verifier outcome) row of Subscriber.tla is published through real gossipsub nodes on mocknet "
                       "(publisher -- node under test -- downstream) inside a synctest bubble; verdict read from a RawTracer on the node under test, "
                       "delivery from Subscription.NextHeader, relay from the downstream node; non-trivial = not accepted; distinct = distinct row")
    run.assumptions += ["payload classes are instantiated by one representative each (byte-level decoding not exhaustive)",
                        "gossipsub validation timeout provides the context expiry of the 'verifier not set' row"]


@register("C13")
def c13(run):
    quick = run.tier == "quick"
    rnd = random.Random(vlib.seed())
    res = vlib.tlc(run.pid, "table", "ExchangeGet", "ExchangeGet.cfg", export_key="C13", workers=4,
                   constants={"MaxPeers": 2 if quick else 3}, timeout=3000)
    vlib.require_tlc_ok(res, "ExchangeGet.tla")
    run.add_tlc("ExchangeGet.tla decision table (answer class per trusted peer x arrival order x Get/GetByHeight)", res)
    cases = res.exported
    total = len(cases)
    cap_ = 500 if quick else 6000
    if total > cap_:
        cases.sort(key=lambda c: json.dumps(c["in"], sort_keys=True))   # (parallel export order is not stable: the seed decides the sample)
        one = [c for c in cases if len(c["in"]["ans"]) == 1]
        rest = [c for c in cases if len(c["in"]["ans"]) > 1]
        cases = one + rnd.sample(rest, cap_ - len(one))
    # replay-only variant (same prediction): the client does not pin a chain id; rows whose answers all name the right chain
    import copy
    nopin = []
    for c in cases:
        if not set(c["in"]["ans"]) & {"wrongchain", "nochain"} and rnd.random() < (0.3 if quick else 1.0):
            c2 = copy.deepcopy(c)
            c2["in"]["nopin"] = True
            nopin.append(c2)
    # replay-only variant (same prediction): every trusted peer is disconnected when the call is made (it is dialled for it)
    offline = []
    for c in cases:
        if rnd.random() < (0.2 if quick else 1.0):
            c2 = copy.deepcopy(c)
            c2["in"]["offline"] = True
            offline.append(c2)
    cases = cases + nopin + offline
    run.cov["nopin_variants"] = len(nopin)
    run.cov["offline_variants"] = len(offline)
    for i, c in enumerate(cases):
        c["id"] = i
    run.cov["rows_total"], run.cov["rows_executed"] = total, len(cases)
    run.cov["exhaustive"] = total == len(cases)
    for c in cases[:2] + cases[-2:]:
        run.sample({"in": c["in"], "predicted": c["predicted"]})
    run.cov["rule"] = ("every assignment of 12 answer classes to 1..%d trusted peers x arrival order x {Get, GetByHeight} (TLC initial states); "
                       "seeded sample of the multi-peer rows in the quick tier; scripted peers on mocknet released one at a time; "
                       "non-trivial = the call returns an error; distinct = distinct row" % (2 if quick else 3))
    run.assumptions += ["a hanging peer is a stream held beyond RequestTimeout and then reset (mocknet ignores deadlines)",
                        "answer classes are instantiated by one representative byte string each"]
    judge(run, cases, "TestGet", "ExchangeGetTrace", ["C13_"], shards=8)


@register("C09")
def c09(run):
    quick = run.tier == "quick"
    rnd = random.Random(vlib.seed())
    res = vlib.tlc(run.pid, "table", "ExchangeHead", "ExchangeHead.cfg", export_key="C09", workers=8,
                   constants={"MaxPeers": 4, "MaxTrustedPeers": 3 if quick else 4}, timeout=3000)
    vlib.require_tlc_ok(res, "ExchangeHead.tla")
    run.add_tlc("ExchangeHead.tla decision table (answers x arrival orders x trusted/untrusted mode, quorum arithmetic for n<=6)", res)
    cases = res.exported
    total = len(cases)
    # replay-only dimension (same prediction): the peer tracker is empty when the request with a trusted head is made,
    # so it falls back to the trusted peers
    import copy
    extra = []
    for c in cases:
        if c["in"]["trusted"] and rnd.random() < (0.25 if quick else 1.0):
            c2 = copy.deepcopy(c)
            c2["in"]["fallback"] = True
            extra.append(c2)
        if c["in"]["trusted"] and len(c["in"]["ans"]) >= 2 and rnd.random() < (0.3 if quick else 1.0):
            # replay-only: a single configured trusted peer, the same n tracked peers asked
            c3 = copy.deepcopy(c)
            c3["in"]["fewTrusted"] = True
            extra.append(c3)
    # 5 and 6 asked peers (plain Head(): every trusted peer is asked): rows around the quorum threshold, built here —
    # k peers agree on A (height 5), the others report B (height 7); arrival order A-first and B-first.
    # prediction: minHeadResponses(n) = ceil(2n/3) transcribed; judged by the same property layer (QuorumAt)
    def min_head(n):
        return n if n <= 2 else (2 * n + 2) // 3
    big = []
    for n_ in (5, 6):
        for k in range(min_head(n_) - 2, min_head(n_) + 2):
            if k < 0 or k > n_:
                continue
            for fail in (0, 1):           # one of the B peers fails instead
                ans = ["A"] * k + ["B"] * (n_ - k)
                if fail and n_ - k >= 1:
                    ans[-1] = "fail"
                for order in (list(range(1, n_ + 1)), list(range(n_, 0, -1))):
                    ca, cb = ans.count("A"), ans.count("B")
                    if ca >= min_head(n_):
                        pid_ = "A"
                    elif cb >= min_head(n_):
                        pid_ = "B"
                    else:
                        pid_ = "B" if cb else ("A" if ca else "zero")
                    big.append({"k": "C09", "in": {"trusted": False, "ans": ans, "order": order},
                                "predicted": {"id": pid_, "err": "nil" if pid_ != "zero" else "notfound"}, "from_tlc": False})
    cases = cases + extra + big
    run.cov["fallback_variants"] = len(extra)
    run.cov["rows_5_6_peers"] = len(big)
    for i, c in enumerate(cases):
        c["id"] = i
    run.cov["rows_total"], run.cov["rows_executed"] = total, len(cases)
    run.cov["exhaustive"] = total <= len(cases) - len(extra) - len(big)
    for c in cases[:2] + cases[-2:]:
        run.sample({"in": c["in"], "predicted": c["predicted"]})
    run.cov["rule"] = ("every multiset of answers (header ids with verification class, fail, hang) of 1..%d asked peers in every arrival order, "
                       "with WithTrustedHead for up to %d peers and without for up to 4 peers; every row executed; gated scripted peers on mocknet; "
                       "non-trivial = not a plain nil-error result; distinct = distinct row" % (4, 3 if quick else 4))
    run.assumptions += ["a hanging peer never answers within the caller's 5 s (virtual) context",
                        "verification classes are realised by header content against the trusted head (adjacent/non-adjacent, bad signature, lower height)"]
    judge(run, cases, "TestHead", "ExchangeHeadTrace", ["C09_"], shards=8)


BYZ = ["prefix", "prefixStall", "notfound", "empty", "shifted", "dup", "reordered", "forged", "forgedFirst", "wrongchain", "invalid",
       "malformed", "unknownStatus", "tooMany", "disconnect", "decodePanic", "forkMid", "timeBack"]


def exchange_design(run, combos, byz):
    for (amount, chunk) in combos:
        cfgname = "_gen_%s_ex.cfg" % run.pid
        txt = "\n".join(["CONSTANTS From = 1", " Amount = %d" % amount, " Chunk = %d" % chunk, " Peers <- MCPeers3",
                          " Catalogue <- %s" % ("MCByz" if byz else "MCBenign"), " Capable <- %s" % ("MCNone" if byz else "MCCap1"),
                          " MaxFaults = 3", "SPECIFICATION %s" % ("Spec" if byz else "LiveSpec"),
                          "INVARIANTS ResultExact RequestsInRange NoLossNoDup"] + ([] if byz else ["PROPERTIES EventuallyFull"]) +
                         ["CHECK_DEADLOCK FALSE"]) + "\n"
        open(os.path.join(vlib.SPEC, cfgname), "w").write(txt)
        try:
            res = vlib.tlc(run.pid, "mc_%d_%d" % (amount, chunk), "ExchangeMC", cfgname, workers=8, timeout=3000)
        finally:
            os.remove(os.path.join(vlib.SPEC, cfgname))
        vlib.require_tlc_ok(res, "Exchange.tla amount=%d chunk=%d" % (amount, chunk))
        run.add_tlc("Exchange.tla session model amount=%d chunk=%d %s" % (amount, chunk, "Byzantine catalogue, safety" if byz else "benign faults + capable peer, safety + liveness"), res)


@register("C05")
def c05(run):
    quick = run.tier == "quick"
    rnd = random.Random(vlib.seed())
    exchange_design(run, [(5, 2), (4, 3)] if quick else [(5, 2), (4, 3), (6, 3), (7, 2)], True)
    cases = []
    # degenerate requests: to <= from+1 (and the wrapped value)
    for to in (4, 3, 2, 0):
        cases.append({"from": 3, "amount": 0, "chunk": 2, "to": to, "mode": "byz", "peers": [{"script": []}]})
    combos = [(3, 2), (5, 2), (4, 3), (6, 3), (2, 4), (9, 4)]
    for amount, chunk in combos:
        for b1 in BYZ:                       # one misbehaviour on the first request, then honest
            cases.append({"from": 1, "amount": amount, "chunk": chunk, "mode": "byz", "peers": [{"script": [b1]}]})
            cases.append({"from": 1, "amount": amount, "chunk": chunk, "mode": "byz", "peers": [{"script": ["serve", b1]}]})
            cases.append({"from": 2, "amount": amount, "chunk": chunk, "mode": "byz", "peers": [{"script": [b1]}, {"script": []}]})
    n_rand = 150 if quick else 4000
    for _ in range(n_rand):                  # seeded assignments: 1..3 peers, scripts of length <= 3 incl. retries
        amount, chunk = rnd.choice(combos + [(12, 5), (20, 64)])
        peers = [{"script": [rnd.choice(BYZ + ["serve", "serve"]) for _ in range(rnd.randint(0, 3))]} for _ in range(rnd.randint(1, 3))]
        cases.append({"from": rnd.randint(1, 3), "amount": amount, "chunk": chunk, "mode": "byz", "peers": peers})
    for c in cases:       # replay-only dimension: a third of the clients have metrics enabled
        if rnd.random() < 0.34:
            c["metrics"] = True
    for i, c in enumerate(cases):
        c["id"] = i
        c["from_tlc"] = False
    for c in cases[:1] + cases[6:8] + cases[-1:]:
        run.sample(c)
    run.cov["scenarios"] = len(cases)
    run.cov["rule"] = ("GetRangeByHeight sessions against scripted peers: degenerate (from,to) pairs; every catalogue misbehaviour on the first / "
                       "second request of a single peer and next to an honest peer for 6 (amount, chunk) pairs; seeded assignments of misbehaviours "
                       "to 1..3 peers x up to 3 requests each; every session log is trace-validated against the session model (ExchangeTrace.tla); "
                       "non-trivial = session with a misbehaviour or an error; distinct = distinct scenario")
    run.assumptions += ["fabricated headers carry a bad signature (a peer cannot sign for the validators); validly signed forks are outside the catalogue",
                        "timeouts are streams held beyond RequestTimeout (mocknet ignores deadlines)"]
    judge(run, cases, "TestRange", "ExchangeTrace", ["C05_"], shards=8,
          sig_fn=lambda c, f: {"degenerate": "to" in c, "first": (c.get("peers") or [{}])[0].get("script", [None])[:1]})


def tracker_flow(run):
    """PeerTracker.tla: design check under asynchronous event delivery, then one behaviour per edge of the atomic
    graph replayed on a real Exchange (connect / disconnect / score / block / ageing), followed by a real
    GetRangeByHeight that must be served whenever a capable peer is still connected (C18 after churn)."""
    quick = run.tier == "quick"
    rnd = random.Random(vlib.seed())
    res = vlib.tlc(run.pid, "pt_mc", "PeerTracker", "PeerTracker.cfg", workers=8, timeout=1800,
                   constants=None if quick else {"MaxEvents": 7})
    vlib.require_tlc_ok(res, "PeerTracker.tla design check")
    run.add_tlc("PeerTracker.tla 3 peers, full/limited connections, asynchronous bus, tracker size 2, gc", res)
    res = vlib.tlc(run.pid, "pt_ex", "PeerTracker", "PeerTrackerExport.cfg", workers=1, export_key="PT", timeout=1800)
    vlib.require_tlc_ok(res, "PeerTracker.tla export")
    run.add_tlc("PeerTracker.tla transition cover (atomic delivery, 3 peers, 5 network events, 3 ticks)", res)
    cases = res.exported
    total = len(cases)
    cap_ = 400 if quick else total
    if total > cap_:
        cases = rnd.sample(cases, cap_)
    base = 500000
    for i, c in enumerate(cases):
        c["id"] = base + i
    run.cov["tracker_edges_exported"], run.cov["tracker_edges_replayed"] = total, len(cases)
    judge(run, cases, "TestTracker", "PeerTrackerTrace", ["C18_", "C05_"], shards=8, drift_prefixes=["PT_"],
          sig_fn=lambda c, f: {"after": "churn", "last_op": (c.get("hist") or [{}])[-1].get("op", {}).get("op")})


@register("C18")
def c18(run):
    quick = run.tier == "quick"
    rnd = random.Random(vlib.seed())
    exchange_design(run, [(5, 2), (4, 3)] if quick else [(5, 2), (4, 3), (6, 3), (7, 2), (3, 1)], False)
    cases = []
    faults = [[], ["timeout"], ["disconnect"], ["notfound"], ["prefix"], ["prefixStall"]]
    for chunk in (1, 2, 3, 4):
        for amount in range(1, 3 * chunk + 1):
            # one capable peer alone, and next to every kind of limited / faulty peer
            cases.append({"from": 1, "amount": amount, "chunk": chunk, "mode": "honest", "peers": [{"script": []}]})
            for avail in sorted({1, 2, 1 + amount // 2, amount}):
                for f in faults:
                    if quick and rnd.random() > 0.35:
                        continue
                    cases.append({"from": 1, "amount": amount, "chunk": chunk, "mode": "honest",
                                  "peers": [{"script": f, "avail": avail}, {"script": []}]})
    # a peer that faulted once (benign) stays usable: after the first call the never-faulting peers leave for good and the
    # same range is asked again from the one that is left
    for chunk in (2, 3):
        for amount in (1, 2, 5):
            for f in faults[1:]:
                cases.append({"from": 1, "amount": amount, "chunk": chunk, "mode": "honest", "soloSecond": True,
                              "peers": [{"script": f, "avail": 1 + amount + chunk + 4}, {"script": []}]})
    # two calls on one client: the first range is held by every peer (one sub-request: one of them serves it), the second
    # call asks for the NEXT range, which only the peers with the longer chain hold — whoever served the first call
    for chunk in (2, 3, 4):
        for amount in range(1, chunk + 1):
            for order in (0, 1, 2):
                peers = [{"script": [], "avail": 1 + amount}, {"script": [], "avail": 1 + 2 * amount + chunk + 4}]
                if order == 2:
                    peers.append({"script": [], "avail": 1 + amount})
                if order == 1:
                    peers.reverse()
                cases.append({"from": 1, "amount": amount, "chunk": chunk, "mode": "honest", "shiftSecond": True, "peers": peers})
    # the connection to the capable peer is lost while a lagging peer answers: it is queued in the session but disconnected
    # (one sub-request only: mocknet has no deadlines, so a connection must not be closed under a stream that is in use)
    for chunk in (2, 3, 4):
        for amount in range(1, chunk + 1):
            for npeers in (2, 3):
                peers = [{"script": ["dropOthers", "dropOthers"], "avail": 1}] + [{"script": []} for _ in range(npeers - 1)]
                rnd.shuffle(peers)
                cases.append({"from": 1, "amount": amount, "chunk": chunk, "mode": "honest", "peers": peers})
    n_rand = 120 if quick else 6000
    for _ in range(n_rand):
        chunk = rnd.choice([1, 2, 3, 5, 8, 16, 64])
        amount = rnd.randint(1, min(3 * chunk, 192))
        peers = [{"script": rnd.choice(faults), "avail": 1 + rnd.randint(0, amount)} for _ in range(rnd.randint(0, 4))]
        peers.insert(rnd.randint(0, len(peers)), {"script": []})
        cases.append({"from": 1, "amount": amount, "chunk": chunk, "mode": "honest", "peers": peers,
                      "soloSecond": rnd.random() < 0.5})
    for c in cases:       # replay-only dimension: a third of the clients have metrics enabled
        if rnd.random() < 0.34:
            c["metrics"] = True
    for i, c in enumerate(cases):
        c["id"] = i
        c["from_tlc"] = False
    for c in cases[:1] + cases[30:32] + cases[-1:]:
        run.sample(c)
    run.cov["scenarios"] = len(cases)
    run.cov["rule"] = ("honest peers serving the canonical chain up to an availability prefix, benign faults (not-found, prefix, time-out once, "
                       "disconnect) and at least one capable peer: every range length 1..3x chunk for chunk 1..4 with a second limited/faulty peer, "
                       "plus seeded scenarios with chunk up to 64 and up to 5 peers; plus wire round-trips against a real ExchangeServer over a real Store; "
                       "non-trivial = more than one sub-request or a fault; distinct = distinct scenario")
    run.assumptions += ["honest peers are scripted handlers reproducing the server's answers for a store holding 1..avail; the real server is used for the wire round-trips"]
    judge(run, cases, "TestRange", "ExchangeTrace", ["C18_", "C05_"], shards=8)
    judge(run, [{"id": 0}], "TestWire", "ExchangeTrace", ["C18_"], shards=1)
    tracker_flow(run)
