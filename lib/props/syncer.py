"""Syncer family — C15 (bifurcation), C16 (tail), C19 (Head), C07 (liveness), C03 (safety)."""
import os, random, collections, json
import vlib
from . import register
from .p2p import judge


@register("C15")
def c15(run):
    quick = run.tier == "quick"
    rnd = random.Random(vlib.seed())
    consts = {"MaxD": 8, "AllTrustUpTo": 4, "MaxR": 3} if quick else {"MaxD": 40, "AllTrustUpTo": 5, "MaxR": 6}
    res = vlib.tlc(run.pid, "table", "Bifurcation", "Bifurcation.cfg", export_key="C15", workers=8, constants=consts, timeout=3000)
    vlib.require_tlc_ok(res, "Bifurcation.tla")
    run.add_tlc("Bifurcation.tla: verifyBifurcating transcribed; all trust predicates up to distance %d, interval predicates up to distance %d, "
                "forged/valid candidate, getter failure at step 0..3, forged intermediate" % (consts["AllTrustUpTo"], consts["MaxD"]), res)
    cases = res.exported
    total = len(cases)
    cap_ = 2500 if quick else 40000
    if total > cap_:
        cases = rnd.sample(cases, cap_)
    for i, c in enumerate(cases):
        c["id"] = i
    run.cov["rows_total"], run.cov["rows_executed"] = total, len(cases)
    run.cov["exhaustive"] = total == len(cases)
    for c in cases[:2] + cases[-1:]:
        run.sample({"in": c["in"], "predicted": c["predicted"]})
    run.cov["rule"] = ("every (distance, trust predicate, forged?, getter failure step, forged intermediate) row of Bifurcation.tla is delivered to the real Syncer "
                       "(store at the subjective head, harness header type with that trust predicate, scripted getter); compared: accept/refuse, the exact "
                       "GetByHeight height sequence, promoted intermediates (verif hook), Syncer.Head(); non-trivial = bifurcation needed getter calls; distinct = distinct row")
    run.assumptions += ["non-adjacent verification outcome is given by the row's trust predicate installed in the harness header type",
                        "forged = bad signature: fails hard when adjacent, soft otherwise"]
    judge(run, cases, "TestBifurcation", "BifurcationTrace", ["C15_"], shards=8, pkg="synch")


@register("C16")
def c16(run):
    quick = run.tier == "quick"
    known = sorted({f["model_tag"] for f in vlib.load_known() if f.get("status") == "open" and f.get("model_tag", "").startswith("KF-C16")})
    res = vlib.tlc(run.pid, "table", "SyncerTail", "SyncerTail.cfg", export_key="C16", workers=8, timeout=3000,
                   constants={"Known": "{%s}" % ", ".join('"%s"' % k for k in known)})
    vlib.require_tlc_ok(res, "SyncerTail.tla")
    run.add_tlc("SyncerTail.tla: tail arithmetic transcribed with Go semantics (division by zero, uint64 wrap); parameters x store x time pattern x new head", res)
    cases = res.exported
    for i, c in enumerate(cases):
        c["id"] = i
    design_bad = collections.Counter((c["predicted"]["kind"]) for c in cases if not c["allowed"])
    run.cov["design_rows_outside_allowed"] = dict(design_bad)
    run.cov["rows_total"] = len(cases)
    run.cov["exhaustive"] = True
    for c in cases[:1] + [c for c in cases if not c["allowed"]][:2]:
        run.sample({"in": c["in"], "predicted": c["predicted"], "design_allowed": c["allowed"]})
    run.cov["rule"] = ("every row (blockTime 0..3, window, trusting period, SyncFromHeight, time pattern regular/slow/halted/burst, empty or running store, "
                       "new head) is one Start()+Head() of the real Syncer over a real Store with explicit header times (tick = 1 h virtual); observed: panic, "
                       "wrap-around (requested heights), error, Tail/Head, gap-freeness, pruned heights; non-trivial = tail moved or failure; distinct = distinct row")
    run.assumptions += ["SyncFromHash rows are not part of the table (hash lookups go through the same renewTail/moveTail path as SyncFromHeight)",
                        "integer arithmetic of the model is bounded (TLC); the uint64/int64 extremes are represented by the wrap symbol"]

    def sig(c, f):
        i = c.get("in", {})
        ts = c.get("times", [])
        nh = i.get("nhead", 1)
        faster = any(ts[k + 1] - ts[k] < i.get("bt", 0) for k in range(0, max(0, nh - 1)))
        return {"bt0": i.get("bt") == 0, "empty_store": i.get("tail") == 0, "sfh": i.get("sfh", 0) > 0,
                "blocks_faster_than_blockTime": faster, "new_head_beyond_local_head_plus_1": i.get("tail", 0) != 0 and nh > i.get("shead", 0) + 1}
    judge(run, cases, "TestTail", "SyncerTailTrace", ["C16_"], shards=8, pkg="synch", sig_fn=sig)


@register("C19")
def c19(run):
    quick = run.tier == "quick"
    rnd = random.Random(vlib.seed())
    cases = []
    for (rt, tp, steps) in ([(2, 6, 5)] if quick else [(2, 6, 6), (1, 3, 6), (3, 9, 5)]):
        res = vlib.tlc(run.pid, "mc_%d_%d" % (rt, tp), "SyncerHead", "SyncerHead.cfg", export_key="C19", workers=1,
                       constants={"RT": rt, "TP": tp, "MaxSteps": steps, "MaxClock": 4 * tp}, timeout=3000)
        vlib.require_tlc_ok(res, "SyncerHead.tla RT=%d TP=%d" % (rt, tp))
        run.add_tlc("SyncerHead.tla RT=%d TP=%d MaxSteps=%d (Monotone, RecentNoTraffic, StaleOneTrustedRequest, InitOnlyNonExpired)" % (rt, tp, steps), res)
        cases.extend(res.exported)
    total = len(cases)
    cap_ = 2500 if quick else 30000
    if total > cap_:
        cases = rnd.sample(cases, cap_)
    # variant: the same behaviours with the sync loop's range requests hanging (learned heads stay in the pending set)
    held = [dict(c, holdSync=True) for c in cases if any(h["op"] in ("head", "heads") for h in c["hist"][1:])]
    if quick:
        held = rnd.sample(held, min(len(held), 1200))
    cases = cases + held
    for i, c in enumerate(cases):
        c["id"] = i
    run.cov["edges_exported"], run.cov["edges_replayed"] = total, len(cases)
    run.cov["exhaustive"] = total <= len(cases)
    for c in cases[:1] + cases[len(cases) // 2:len(cases) // 2 + 1]:
        run.sample({"rt": c["rt"], "tp": c["tp"], "steps": [(h["op"], h["kind"] or h["d"], h["k"]) for h in c["hist"]]})
    run.cov["rule"] = ("one behaviour per edge of SyncerHead.tla's state graph: sequences of clock advances (1, RT+1, TP+1 ticks), Head() calls with the trusted peers "
                       "answering fresh / stale / expired / lower / failing, 2..3 concurrent callers with the getter gated, gossip heads; real Syncer over a real Store in "
                       "virtual time; non-trivial = more than one step; distinct = distinct step sequence")
    run.assumptions += ["one header per tick; recency/expiry boundaries are hit exactly because virtual time is frozen during a call",
                        "the getter is scripted below the Exchange: verification against the trusted head is not re-done by it"]
    judge(run, cases, "TestSyncerHead", "SyncerHeadTrace", ["C19_"], shards=8, pkg="synch")
