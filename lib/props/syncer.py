"""Syncer family — C15 (bifurcation), C16 (tail), C19 (Head), C07 (liveness), C03 (safety)."""
import os, random, collections, json
import vlib
from . import register
from .p2p import judge


@register("C15")
def c15(run):
    quick = run.tier == "quick"
    rnd = random.Random(vlib.seed())
    consts = {"MaxD": 8, "AllTrustUpTo": 4, "MaxR": 3} if quick else {"MaxD": 40, "AllTrustUpTo": 5, "MaxR": 6}
    res = vlib.tlc(run.pid, "table", "Bifurcation", "Bifurcation.cfg", export_key="C15", workers=8, constants=consts, timeout=3000)
    vlib.require_tlc_ok(res, "Bifurcation.tla")
    run.add_tlc("Bifurcation.tla: verifyBifurcating transcribed; all trust predicates up to distance %d, interval predicates up to distance %d, "
                "forged/valid candidate, getter failure at step 0..3, forged intermediate" % (consts["AllTrustUpTo"], consts["MaxD"]), res)
    cases = res.exported
    total = len(cases)
    cap_ = 2500 if quick else 40000
    if total > cap_:
        # (TLC's parallel export order is not stable: sort first so that the seed decides the sample; the short distances
        # are few and are always kept)
        cases.sort(key=lambda c: json.dumps(c["in"], sort_keys=True))
        small = [c for c in cases if c["in"]["d"] <= 2]
        rest = [c for c in cases if c["in"]["d"] > 2]
        cases = small + rnd.sample(rest, max(0, cap_ - len(small)))
    # replay-only dimensions (same prediction): the candidate arrives as the soft-failing answer to a stale Syncer.Head();
    # the getter fails with header.ErrNotFound; every request from the failing step on fails
    import copy
    extra = []
    for c in cases:
        r = rnd.random()
        if r < (0.35 if quick else 1.0):
            c2 = copy.deepcopy(c)
            # two concurrent callers only where a second search cannot legitimately come to another verdict (no transient getter failure)
            c2["in"]["via"] = "head2" if (c["in"]["failAt"] == 0 and rnd.random() < 0.5) else "head"
            extra.append(c2)
        if c["in"]["failAt"] != 0 and rnd.random() < (0.5 if quick else 1.0):
            c2 = copy.deepcopy(c)
            c2["in"]["fk"] = rnd.choice(["notfound", "deadline"])
            c2["in"]["failAll"] = rnd.random() < 0.5
            c2["in"]["via"] = rnd.choice(["", "head"])
            extra.append(c2)
    run.cov["replay_variants"] = len(extra)
    cases = cases + extra
    for i, c in enumerate(cases):
        c["id"] = i
    run.cov["rows_total"], run.cov["rows_executed"] = total, len(cases)
    run.cov["exhaustive"] = total <= len(cases) - len(extra)
    for c in cases[:2] + cases[-1:]:
        run.sample({"in": c["in"], "predicted": c["predicted"]})
    run.cov["rule"] = ("every (distance, trust predicate, forged?, getter failure step, forged intermediate) row of Bifurcation.tla is delivered to the real Syncer "
                       "(store at the subjective head, harness header type with that trust predicate, scripted getter); compared: accept/refuse, the exact "
                       "GetByHeight height sequence, promoted intermediates (verif hook), Syncer.Head(); non-trivial = bifurcation needed getter calls; distinct = distinct row")
    run.assumptions += ["non-adjacent verification outcome is given by the row's trust predicate installed in the harness header type",
                        "forged = bad signature: fails hard when adjacent, soft otherwise"]
    judge(run, cases, "TestBifurcation", "BifurcationTrace", ["C15_"], shards=8, pkg="synch")
    # composition: the candidate is the answer of a peer to the real p2p.Exchange (tracker populated or empty); the
    # Exchange must hand a soft-failing answer over with its error so that the Syncer bifurcates
    judge(run, [{"id": 0, "from_tlc": False}], "TestComposite", "CompositeTrace", ["C15_"], shards=1, pkg="p2ph")
    # two different valid candidates delivered concurrently (the first one parked inside its search): both have a verifiable
    # path, both are accepted — serialising the candidates must not refuse the one that has to wait
    def ev(e, kind, h):
        return {"ev": {"e": e, "kind": kind, "h": h, "res": ""}, "sh": 0, "pend": [], "wait": False, "from": 0, "reqTo": 0, "serr": False, "sto": 0}
    conc = []
    for i in range(8 if quick else 100):
        n_ = rnd.randint(8, 14)
        far = rnd.randint(5, n_ - 1)
        hist = [ev("gossipAsync", "valid", far), ev("gossipAsync", "valid", far + 1), ev("releaseByHeight", "", 12), ev("collectAll", "", 2)] + \
               [ev("serve", "ok", 64) for _ in range(6)]
        conc.append({"k": "SYNC", "n": n_, "hist": hist, "nodrift": True, "from_tlc": False, "epochLen": 2, "gateByHeight": True,
                     "realtime": True, "id": 900000 + i})
    judge(run, conc, "TestSyncer", "SyncerTrace", ["C15_"], shards=4, pkg="synch")


def deep_tail_rows(quick):
    """hand-built rows (outside SyncerTail.cfg's bounds, same prediction rule: the tail becomes SyncFromHeight): the
    starting point is moved down by several headers, and the getter serves the difference in full or in partial answers of
    1 or 2 headers, so that filling it needs several range requests"""
    pats = {"regular1": list(range(1, 11)), "slow3": [3 * k for k in range(1, 11)], "burst": [3, 6, 9, 12, 13, 14, 15, 16, 17, 18]}
    rows = []
    for pat, times in pats.items():
        for tail in ((6,) if quick else (5, 6, 7)):
            for sfh in ((1, 3) if quick else (1, 2, 3)):
                for shead in ((tail + 1, 9) if not quick else (9,)):
                    for partial in (0, 1, 2):
                        rows.append({"k": "C16", "in": {"bt": -1, "w": 0, "tp": 3, "sfh": sfh, "pat": pat, "tail": tail, "shead": shead, "nhead": 10,
                                                        "partial": partial},
                                     "predicted": {"tail": sfh, "kind": "ok"}, "alt": {"kind": "ok", "tail": sfh}, "allowed": True, "kf": False,
                                     "spaced": False, "times": times, "from_tlc": False})
    return rows


@register("C16")
def c16(run):
    quick = run.tier == "quick"
    rnd = random.Random(vlib.seed())
    known = sorted({f["model_tag"] for f in vlib.load_known() if f.get("status") == "open" and f.get("model_tag", "").startswith("KF-C16")})
    res = vlib.tlc(run.pid, "table", "SyncerTail", "SyncerTail.cfg", export_key="C16", workers=8, timeout=3000,
                   constants={"Known": "{%s}" % ", ".join('"%s"' % k for k in known)})
    vlib.require_tlc_ok(res, "SyncerTail.tla")
    run.add_tlc("SyncerTail.tla: tail arithmetic transcribed with Go semantics (division by zero, uint64 wrap); parameters x store x time pattern x new head", res)
    cases = res.exported
    # replay-only variant (same prediction): running store with the shortest trusting period that still covers the stored head
    import copy
    extra = []
    for c in cases:
        i_ = c["in"]
        if i_["tail"] != 0 and i_["sfh"] == 0 and i_["w"] > 0 and c["allowed"]:
            c2 = copy.deepcopy(c)
            c2["in"]["tpSmall"] = True
            extra.append(c2)
    # replay-only variant (same prediction): SyncFromHash instead of SyncFromHeight, where the header of that height exists
    nhash = 0
    for c in list(cases):
        i_ = c["in"]
        if i_["sfh"] > 0 and i_["sfh"] <= i_["nhead"] and c["allowed"] and rnd.random() < (0.5 if quick else 1.0):
            c2 = copy.deepcopy(c)
            c2["in"]["byHash"] = True
            extra.append(c2)
            nhash += 1
    # replay-only variants (same prediction): the first single-header request fails and Start is called again; a second
    # Head() caller while Start is still fetching the tail header of an empty store
    nretry = 0
    for c in list(cases):
        i_ = c["in"]
        # (empty stores only: on a running store a failed tail renewal is legitimately retried with the next newer head only)
        if i_["tail"] == 0 and c["allowed"] and not c["kf"] and c["predicted"]["kind"] == "ok" and rnd.random() < (0.25 if quick else 1.0):
            c2 = copy.deepcopy(c)
            c2["in"]["retry" if rnd.random() < 0.5 else "concHead"] = True
            extra.append(c2)
            nretry += 1
    # replay-only variant (same prediction, which is in ticks): the row on a time scale of 1.5 s or 0.5 s per tick instead of
    # one hour, so that block time and window are not whole seconds
    nscale = 0
    for c in list(cases):
        i_ = c["in"]
        if i_["bt"] >= 1 and c["allowed"] and not c["kf"] and c["predicted"]["kind"] == "ok" and rnd.random() < (0.06 if quick else 0.5):
            c2 = copy.deepcopy(c)
            c2["in"]["tickMs"] = rnd.choice([1500, 500])
            extra.append(c2)
            nscale += 1
    run.cov["time_scale_variants"] = nscale
    run.cov["retry_concHead_variants"] = nretry
    deep = deep_tail_rows(quick)
    cases = cases + extra + deep
    run.cov["deep_move_down_rows"] = len(deep)
    run.cov["tpSmall_variants"] = len(extra) - nhash - nretry - nscale
    run.cov["byHash_variants"] = nhash
    for i, c in enumerate(cases):
        c["id"] = i
    design_bad = collections.Counter((c["predicted"]["kind"]) for c in cases if not c["allowed"])
    unclassified = [c for c in cases if not c["allowed"] and not c["kf"]]
    if unclassified:
        vlib.log("DESIGN-COUNTEREXAMPLE property=C16 SyncerTail.tla: %d rows outside the property layer that are no recorded finding, e.g. %s; "
                 "replaying on the code" % (len(unclassified), json.dumps(unclassified[0]["in"])))
    run.cov["design_rows_outside_allowed"] = dict(design_bad)
    run.cov["rows_total"] = len(cases)
    run.cov["exhaustive"] = True
    for c in cases[:1] + [c for c in cases if not c["allowed"]][:2]:
        run.sample({"in": c["in"], "predicted": c["predicted"], "design_allowed": c["allowed"]})
    run.cov["rule"] = ("every row (blockTime 0..3, window, trusting period, SyncFromHeight, time pattern regular/slow/halted/burst, empty or running store, "
                       "new head) is one Start()+Head() of the real Syncer over a real Store with explicit header times (tick = 1 h virtual); observed: panic, "
                       "wrap-around (requested heights), error, Tail/Head, gap-freeness, pruned heights; non-trivial = tail moved or failure; distinct = distinct row")
    run.assumptions += ["SyncFromHash is exercised as a replay-only variant of the SyncFromHeight rows whose header exists (same prediction)",
                        "integer arithmetic of the model is bounded (TLC); the uint64/int64 extremes are represented by the wrap symbol"]

    def sig(c, f):
        i = c.get("in", {})
        ts = c.get("times", [])
        nh = i.get("nhead", 1)
        faster = any(ts[k + 1] - ts[k] < i.get("bt", 0) for k in range(0, max(0, nh - 1)))
        return {"bt0": i.get("bt") == 0, "empty_store": i.get("tail") == 0, "sfh": i.get("sfh", 0) > 0,
                "blocks_faster_than_blockTime": faster, "new_head_beyond_local_head_plus_1": i.get("tail", 0) != 0 and nh > i.get("shead", 0) + 1,
                # the implementation-layer model of the unchanged code computes a new tail beyond the local head + 1 for this row
                "model_predicts_error": (c.get("predicted") or {}).get("kind") == "error"}
    judge(run, cases, "TestTail", "SyncerTailTrace", ["C16_"], shards=8, pkg="synch", sig_fn=sig)
    apalache_tail(run)
    if unclassified and not run.violations:
        raise vlib.Inconclusive("SyncerTail.tla predicts %d violating rows that the real code did not reproduce" % len(unclassified))


@register("C19")
def c19(run):
    quick = run.tier == "quick"
    rnd = random.Random(vlib.seed())
    cases = []
    for (rt, tp, steps) in ([(2, 6, 5)] if quick else [(2, 6, 6), (1, 3, 6), (3, 9, 5)]):
        res = vlib.tlc(run.pid, "mc_%d_%d" % (rt, tp), "SyncerHead", "SyncerHead.cfg", export_key="C19", workers=1,
                       constants={"RT": rt, "TP": tp, "MaxSteps": steps, "MaxClock": 4 * tp}, timeout=3000)
        vlib.require_tlc_ok(res, "SyncerHead.tla RT=%d TP=%d" % (rt, tp))
        run.add_tlc("SyncerHead.tla RT=%d TP=%d MaxSteps=%d (Monotone, RecentNoTraffic, StaleOneTrustedRequest, InitOnlyNonExpired)" % (rt, tp, steps), res)
        cases.extend(res.exported)
    total = len(cases)
    cap_ = 2500 if quick else 30000
    if total > cap_:
        cases = rnd.sample(cases, cap_)
    # variant: the same behaviours with the sync loop's range requests hanging (learned heads stay in the pending set)
    held = [dict(c, holdSync=True) for c in cases if any(h["op"] in ("head", "heads") for h in c["hist"][1:])]
    if quick:
        held = rnd.sample(held, min(len(held), 1200))
    cases = cases + held
    for i, c in enumerate(cases):
        c["id"] = i
        c["optRev"] = i % 2 == 1   # replay-only variant: the options are passed in the opposite order
    run.cov["edges_exported"], run.cov["edges_replayed"] = total, len(cases)
    run.cov["exhaustive"] = total <= len(cases)
    for c in cases[:1] + cases[len(cases) // 2:len(cases) // 2 + 1]:
        run.sample({"rt": c["rt"], "tp": c["tp"], "steps": [(h["op"], h["kind"] or h["d"], h["k"]) for h in c["hist"]]})
    run.cov["rule"] = ("one behaviour per edge of SyncerHead.tla's state graph: sequences of clock advances (1, RT+1, TP+1 ticks), Head() calls with the trusted peers "
                       "answering fresh / stale / expired / lower / failing, 2..3 concurrent callers with the getter gated, gossip heads; real Syncer over a real Store in "
                       "virtual time; non-trivial = more than one step; distinct = distinct step sequence")
    run.assumptions += ["one header per tick; recency/expiry boundaries are hit exactly because virtual time is frozen during a call",
                        "the getter is scripted below the Exchange: verification against the trusted head is not re-done by it"]
    judge(run, cases, "TestSyncerHead", "SyncerHeadTrace", ["C19_"], shards=8, pkg="synch")
    # schedule replay through the sync yield point: a Head() caller parked inside syncStore.Append while gossip and the
    # sync loop move the head (the interleaving behind finding D13)
    judge(run, [{"id": 0, "from_tlc": False}], "TestHeadRace", "SyncerHeadTrace", ["C19_", "IMPL_race"], shards=1, pkg="synch")
    # composition: the real Syncer over the real p2p.Exchange (scripted peer on mocknet), tracker populated or empty:
    # the head request of a stale subjective head is verified against it whichever peers the Exchange falls back to
    judge(run, [{"id": 0, "from_tlc": False}], "TestComposite", "CompositeTrace", ["C19_"], shards=1, pkg="p2ph")
    # the Syncer's shared state under concurrent gossip, Head() callers and the sync loop (HeadMonotone at yield-point granularity)
    sync_conc(run, ["C19_"])
    judge(run, [{"id": 0, "from_tlc": False}], "TestHeadTimeoutRecovers", "SyncConcTrace", ["C19_"], shards=1, pkg="synch")


def syncer_cfg(n, maxreq, faults, events, export, live=False):
    t = ["CONSTANTS N = %d" % n, " MaxReq = %d" % maxreq, " MaxFaults = %d" % faults, " MaxEvents = %d" % events,
         "SPECIFICATION %s" % ("LiveSpec" if live else "Spec"), "VIEW view", "CHECK_DEADLOCK FALSE"]
    if export:
        t.append("CONSTRAINT ExportEdge")
    else:
        t.append("INVARIANTS TargetReached PendingAboveStore StoreWithinLearned")
        t.append("PROPERTIES NothingLost" + (" EventuallySynced" if live else ""))
    return "\n".join(t) + "\n"


def syncer_family(run, prefixes):
    quick = run.tier == "quick"
    rnd = random.Random(vlib.seed())

    def tlc_cfg(name, text, export, workers=8, sim=None, depth=None):
        fn = "_gen_%s_%s.cfg" % (run.pid, name)
        open(os.path.join(vlib.SPEC, fn), "w").write(text)
        try:
            return vlib.tlc(run.pid, name, "Syncer", fn, workers=workers, export_key="SYNC" if export else None, timeout=3000,
                            simulate=sim, depth=depth)
        finally:
            os.remove(os.path.join(vlib.SPEC, fn))
    n, ev = (6, 7) if quick else (7, 9)
    res = tlc_cfg("mc", syncer_cfg(n, 64, 2, ev, False), False)
    vlib.require_tlc_ok(res, "Syncer.tla safety")
    run.add_tlc("Syncer.tla N=%d MaxEvents=%d (TargetReached, NothingLost, PendingAboveStore)" % (n, ev), res)
    res = tlc_cfg("live", syncer_cfg(5, 64, 1, 6, False, live=True), False)
    vlib.require_tlc_ok(res, "Syncer.tla liveness")
    run.add_tlc("Syncer.tla liveness EventuallySynced under WF(honest serve)", res)
    res = tlc_cfg("chunk", syncer_cfg(9, 3, 2, ev, False), False)
    vlib.require_tlc_ok(res, "Syncer.tla chunked")
    run.add_tlc("Syncer.tla with MaxReq=3 (chunked requests)", res)
    res = tlc_cfg("export", syncer_cfg(n, 64, 2, ev, True), True, workers=1)
    vlib.require_tlc_ok(res, "Syncer.tla export")
    run.add_tlc("Syncer.tla export (one behaviour per edge)", res)
    cases = res.exported
    total = len(cases)
    cap_ = 2500 if quick else 40000
    if total > cap_:
        cases = rnd.sample(cases, cap_)
    # long chains so that the real MaxRangeRequestSize=64 splits requests: simulated behaviours of a big model
    sim = tlc_cfg("sim", syncer_cfg(150, 64, 2, 10, True), True, workers=1, sim="num=%d" % (60 if quick else 1500), depth=12)
    if sim.error:
        raise vlib.Inconclusive("Syncer.tla simulation: " + sim.error)
    run.add_tlc("Syncer.tla simulation N=150 MaxReq=64", sim)
    longs = [c for c in sim.exported if len(c["hist"]) >= 3]
    longs = longs[-(200 if quick else 4000):]
    cases = cases + longs
    # hand-built scenarios around a forged head far ahead (refused through bifurcation, which promotes verified intermediates):
    # judged by the property layer only
    def ev(e, kind, h):
        return {"ev": {"e": e, "kind": kind, "h": h, "res": ""}, "sh": 0, "pend": [], "wait": False, "from": 0, "reqTo": 0, "serr": False, "sto": 0}
    frees = []
    for _ in range(60 if quick else 1500):
        n_ = rnd.randint(6, 14)
        hist, top = [], 1
        for _ in range(rnd.randint(2, 6)):
            r = rnd.random()
            if r < 0.35 and top + 2 <= n_:
                fh = rnd.randint(top + 2, n_)
                hist.append(ev("gossip", "forgedFar", fh))
                top = fh - 1          # refusing it through bifurcation teaches the verified headers below it
            elif r < 0.6 and top + 1 <= n_:
                top = rnd.randint(top + 1, n_)
                hist.append(ev("gossip", "valid", top))
            elif r < 0.7:
                hist.append(ev("gossip", rnd.choice(["wrongchain", "future"]), rnd.randint(top + 1, n_ + 1)))
            else:
                hist.append(ev("serve", rnd.choice(["ok", "ok", "ok", "error"]), rnd.randint(1, 3)))
        for _ in range(8):
            hist.append(ev("serve", "ok", 64))
        frees.append({"k": "SYNC", "n": n_, "hist": hist, "free": True, "from_tlc": False})
    # races: (a) a duplicate / overtaking delivery while the first one is inside bifurcation (getter gated);
    #        (b) a Head() request in flight while gossip moves the target and the sync is between two partial answers,
    #            then a lying tracked peer offers a forged header right above the store head with a soft failure
    for _ in range(40 if quick else 800):
        n_ = rnd.randint(8, 14)
        far = rnd.randint(6, n_)
        hist = [ev("gossipAsync", "valid", far), ev("gossipAsync", "valid", far)]
        if rnd.random() < 0.5:
            hist.append(ev("gossipAsync", "valid", far))
        hist += [ev("releaseByHeight", "", 12), ev("collect", "", 0)] + [ev("serve", "ok", 64) for _ in range(6)]
        frees.append({"k": "SYNC", "n": n_, "hist": hist, "free": True, "from_tlc": False, "epochLen": 2, "gateByHeight": True, "realtime": True})
    for _ in range(40 if quick else 800):
        n_ = rnd.randint(8, 14)
        tgt = rnd.randint(5, n_)
        hist = [ev("advance", "", 4), ev("headStart", "", 0), ev("gossip", "valid", tgt), ev("serve", "ok", rnd.randint(1, 3)),
                ev("headRelease", "forgedNext", 0)] + [ev("serve", "ok", 64) for _ in range(6)]
        frees.append({"k": "SYNC", "n": n_, "hist": hist, "free": True, "from_tlc": False})
        # (b') several concurrent Head() callers share the in-flight request whose answer is the lying peer's soft-failing head
        hist = [ev("advance", "", 4)] + [ev("headStart", "", 0) for _ in range(rnd.randint(2, 3))]
        if rnd.random() < 0.5:
            hist += [ev("gossip", "valid", tgt), ev("serve", "ok", rnd.randint(1, 3))]
        hist += [ev("headRelease", "forgedNext", 0)] + [ev("serve", "ok", 64) for _ in range(6)]
        frees.append({"k": "SYNC", "n": n_, "hist": hist, "free": True, "from_tlc": False})
    # (c) a Head() caller learns the adjacent header while the sync loop waits for a range that starts with it: no getter
    #     fault anywhere, so the target must still be reached (judged with the full C07 clauses, no model prediction)
    for _ in range(12 if quick else 200):
        n_ = rnd.randint(6, 12)
        tgt = rnd.randint(3, n_)
        hist = [ev("advance", "", 4), ev("headStart", "", 0), ev("gossip", "valid", tgt), ev("headRelease", "adjacent", 0)] + \
               [ev("serve", "ok", 64) for _ in range(5)]
        frees.append({"k": "SYNC", "n": n_, "hist": hist, "nodrift": True, "from_tlc": False})
    # (a') two different valid heads delivered concurrently, the first one parked inside bifurcation: both are accepted and
    #      the higher one is reached (real threads: the second delivery waits on the handler's mutex)
    for _ in range(10 if quick else 200):
        n_ = rnd.randint(8, 14)
        far = rnd.randint(5, n_ - 1)
        hist = [ev("gossipAsync", "valid", far), ev("gossipAsync", "valid", far + 1), ev("releaseByHeight", "", 12), ev("collectAll", "", 2)] + \
               [ev("serve", "ok", 64) for _ in range(6)]
        frees.append({"k": "SYNC", "n": n_, "hist": hist, "nodrift": True, "from_tlc": False, "epochLen": 2, "gateByHeight": True, "realtime": True})
    # (f) a getter failure that wraps context.Canceled while the Syncer is alive is reported like any other
    for _ in range(6 if quick else 60):
        n_ = rnd.randint(6, 12)
        tgt = rnd.randint(4, n_ - 1)
        hist = [ev("gossip", "valid", tgt), ev("serve", "ok", rnd.randint(1, 2)), ev("serve", "cancelWrapped", 0),
                ev("gossip", "valid", tgt + 1)] + [ev("serve", "ok", 64) for _ in range(4)]
        frees.append({"k": "SYNC", "n": n_, "hist": hist, "free": True, "from_tlc": False})
    # (d) Head() learns a verified newer head, then its tail renewal fails (SyncFromHeight moved to a height that has to be
    #     fetched, the peers refuse single headers): Head() reports the error, the learned head is a sync target all the same
    for _ in range(10 if quick else 150):
        n_ = rnd.randint(6, 12)
        hist = [ev("advance", "", 4), ev("tailFail", "", rnd.randint(3, n_)), ev("headStart", "", 0), ev("headRelease", "fresh", n_)] + \
               [ev("serve", "ok", 64) for _ in range(5)]
        frees.append({"k": "SYNC", "n": n_, "hist": hist, "nodrift": True, "from_tlc": False})
    # (e) a chain whose clock runs ahead: a head dated within the allowed drift is accepted, the next ones (dated beyond the
    #     drift of the local clock, though close to the accepted one) are refused as future-dated
    for _ in range(8 if quick else 100):
        n_ = rnd.randint(6, 12)
        k = rnd.randint(2, n_ - 2)
        hist = [ev("gossip", "valid", k)] + [ev("serve", "ok", 64) for _ in range(3)] + \
               [ev("gossip", "ahead", k + 1), ev("gossip", "ahead", k + 2)] + [ev("serve", "ok", 64) for _ in range(2)]
        frees.append({"k": "SYNC", "n": n_, "hist": hist, "free": True, "from_tlc": False, "aheadFrom": k})
    cases = cases + frees
    for i, c in enumerate(cases):
        c["id"] = i
    run.cov["free_scenarios"] = len(frees)
    run.cov["edges_exported"], run.cov["edges_replayed"], run.cov["simulated_behaviours"] = total, len(cases) - len(longs) - len(frees), len(longs)
    run.cov["exhaustive"] = total == len(cases) - len(longs) - len(frees)
    for c in cases[:1] + cases[len(cases) // 3:len(cases) // 3 + 1] + longs[:1]:
        run.sample({"n": c["n"], "events": [(h["ev"]["e"], h["ev"]["kind"], h["ev"]["h"]) for h in c["hist"]]})
    run.cov["rule"] = ("one behaviour per edge of Syncer.tla's state graph (gossip of valid / forged / wrong-chain / future / stale heads at every height, "
                       "served range requests as full answers, every prefix length, errors and contract-breaking answers) + simulated long behaviours with N=150 "
                       "so that MaxRangeRequestSize splits requests; real Syncer + real Store + gated scripted getter in virtual time; "
                       "non-trivial = more than one event; distinct = distinct event sequence")
    run.assumptions += ["the getter serves the canonical chain (contract-abiding) except in the two guard-clause answers (empty, non-adjacent)",
                        "interleavings inside one gossip delivery / one served request are not split (event granularity)"]
    judge(run, cases, "TestSyncer", "SyncerTrace", prefixes, shards=8, pkg="synch")


def sync_explore(run, prefixes, runs, procs=8):
    """seeded random walks over the Syncer's own schedule space (sync yield points + getter calls as gates), judged by
    SyncerTrace.tla without a model prediction"""
    import concurrent.futures
    pid = run.pid
    wd = vlib.workdir(pid)
    binp = os.path.join(wd, "synch_explore.test")
    vlib.go_build_test("synch", binp)      # always rebuilt from the current tree
    per = max(1, runs // procs)

    def one(i):
        tp, op = os.path.join(wd, "sx_trace_%d.ndjson" % i), os.path.join(wd, "sx_out_%d.ndjson" % i)
        for f in (tp, op):
            if os.path.exists(f):
                os.remove(f)
        r = vlib.run_bin(binp, ["-test.run", "^TestSyncExplore$", "-test.timeout", "900s" if run.tier == "quick" else "3000s", "-test.count", "1"],
                         env_extra={"VH_TRACE": tp, "VH_OUT": op, "VH_RUNS": per, "VH_IDBASE": 2000000 + i * per,
                                    "VERIF_SEED": vlib.seed(), "GOLOG_LOG_LEVEL": "error"}, timeout=3100)
        if r.returncode != 0:
            tail = r.stdout[-2500:] + r.stderr[-2500:]
            if "panic:" in tail and ("go-header" in tail or "/repo/" in tail) and "synctest" not in tail.split("panic:")[1][:300]:
                return None, [], tail
            raise vlib.Inconclusive("sync explore driver failed:\n" + tail)
        tv = vlib.tlc(pid, "tvsx_%d" % i, "SyncerTrace", "SyncerTrace.cfg", workers=1, env_extra={"TRACE": tp}, export_key="FAIL", heap="2g")
        if tv.error or not tv.ok:
            raise vlib.Inconclusive("trace evaluation failed: %s" % ((tv.error or tv.stdout)[-2000:]))
        return tv, vlib.read_ndjson(op), None

    with concurrent.futures.ThreadPoolExecutor(max_workers=procs) as ex:
        outs = list(ex.map(one, range(procs)))
    cnt = collections.Counter()
    results = []
    for tv, recs, crash in outs:
        if crash:
            run.violation({"family": pid, "symptom": "process_crash", "mode": "explore"}, "free schedule crashed inside go-header: " + crash[-1500:])
            continue
        cfgs = {r["id"]: r.get("detail", "") for r in recs}
        for r in recs:
            r["from_tlc"] = False
            r.pop("detail", None)
        results.extend(recs)
        run.cov["states"] += tv.distinct
        run.cov["transitions"] += tv.generated
        for f in tv.exported:
            for p in f["preds"]:
                if not p.startswith(tuple(prefixes)):
                    continue
                cnt[p] += 1
                run.violation({"family": pid, "pred": p, "mode": "explore"},
                              "clause %s fails at step %s of free schedule %s (seed %s): %s" % (p, f.get("i"), f["tr"], vlib.seed(), cfgs.get(f["tr"], "")))
    from .common import fold
    fold(run, results)
    run.cov["free_schedules"] = per * procs
    fc = dict(run.cov.get("failed_clauses", {}))
    for k2, v2 in cnt.items():
        fc[k2] = fc.get(k2, 0) + v2
    run.cov["failed_clauses"] = fc


@register("C07")
def c07(run):
    syncer_family(run, ["C07_"])
    sync_explore(run, ["C07_"], 1600 if run.tier == "quick" else 80000)
    # real threads: a SyncWait caller in flight while the attempt it waits for is aborted by a getter error (callers blocked
    # on the Syncer's state lock cannot be waited for in a bubble)
    judge(run, [{"id": 0, "from_tlc": False}], "TestSyncWaitFailure", "SyncConcTrace", ["C07_"], shards=1, pkg="synch")
    # a head request that runs into its own timeout only delays: the next Head() call, with healthy peers, learns the head
    judge(run, [{"id": 0, "from_tlc": False}], "TestHeadTimeoutRecovers", "SyncConcTrace", ["C07_"], shards=1, pkg="synch")


def sync_conc(run, prefixes):
    """SyncConc.tla: the Syncer's shared state (syncStore head, pending cache, trigger) under gossip deliveries, Head()
    callers and the sync loop at yield-point granularity.  TLC checks the current code's configuration (Fix = "max")
    and must refute the two others (the code before the repair of D26, and a re-check before pending.Add) — a self-test
    that the invariant has teeth; the counterexample behaviour is replayed on the real Syncer through the verif yield
    points (TestStalePending) and judged by SyncConcTrace.tla."""
    quick = run.tier == "quick"
    consts = {} if quick else {"N": 6, "MaxG": 3, "MaxH": 2, "MaxReq": 2}
    res = vlib.tlc(run.pid, "syncconc", "SyncConc", "SyncConc.cfg", workers=8, timeout=3000, constants=consts)
    vlib.require_tlc_ok(res, "SyncConc.tla")
    run.add_tlc("SyncConc.tla (gossip x Head() x sync loop at yield-point granularity: HeadMonotone, SubjectiveCoversStore, NoSpuriousErr, "
                "WrapMonotone, LocalHeadMonotone, liveness Reached)", res)
    for cfg, inv in (("SyncConcOld.cfg", "SubjectiveCoversStoreAtRest"), ("SyncConcRecheck.cfg", "SubjectiveCoversStoreAtRest"),
                     ("SyncConcOrder.cfg", "HeadMonotone")):     # the two reads of localHead() in the other order
        bad = vlib.tlc(run.pid, "syncconc_" + cfg[:-4], "SyncConc", cfg, workers=8, timeout=1200)
        if bad.violated != inv:
            raise vlib.Inconclusive("SyncConc.tla self-test: %s was not refuted (%s)" % (cfg, bad.error or bad.violated))
    run.cov["syncconc_selftests_refuted"] = 3
    judge(run, [{"id": 0, "from_tlc": True}], "TestStalePending", "SyncConcTrace", prefixes, shards=1, pkg="synch", drift_prefixes=("IMPL_",))


@register("C03")
def c03(run):
    syncer_family(run, ["C03_"])
    sync_conc(run, ["C03_"])
    sync_explore(run, ["C03_"], 1600 if run.tier == "quick" else 80000)
    # the other way the Syncer writes to the Store: the starting point is moved down and the difference below the old tail is
    # fetched in several (partial) range answers — the Store must end as one gap-free run again
    deep = deep_tail_rows(run.tier == "quick")
    for i, c in enumerate(deep):
        c["id"] = i
    run.cov["tail_move_down_rows"] = len(deep)
    judge(run, deep, "TestTail", "SyncerTailTrace", ["C03_"], shards=4, pkg="synch")


def apalache_tail(run):
    """SyncerTailInt.tla: the integer arithmetic of the tail estimate over the full uint64/int64 ranges (Apalache, one step).
    The repaired arithmetic must satisfy InRange and NoDivZero; the pre-repair arithmetic (NextOld) must be refuted — a
    self-test that the checker really explores the ranges."""
    import subprocess, shutil, re
    wd = vlib.workdir(run.pid, "apalache", wipe=True)
    shutil.copy(os.path.join(vlib.SPEC, "SyncerTailInt.tla"), wd)
    out = {}
    import concurrent.futures

    def one(job):
        name, nxt, inv = job
        try:
            r = subprocess.run(["apalache-mc", "check", "--init=Init", "--next=" + nxt, "--inv=" + inv, "--length=1",
                                "--out-dir=" + os.path.join(wd, "out_" + name), "SyncerTailInt.tla"],
                               cwd=wd, capture_output=True, text=True, timeout=300)
            txt = r.stdout + r.stderr
            return name, ("NoError" if "The outcome is: NoError" in txt else ("Error" if "The outcome is: Error" in txt else "failed"))
        except Exception as e:           # tool problem: recorded, never a verdict
            return name, "failed: %s" % type(e).__name__
    jobs = [("fixed_InRange", "Next", "InRange"), ("fixed_NoDivZero", "Next", "NoDivZero"),
            ("old_InRange", "NextOld", "InRange"), ("old_NoDivZero", "NextOld", "NoDivZero")]
    with concurrent.futures.ThreadPoolExecutor(max_workers=4) as ex:
        out = dict(ex.map(one, jobs))
    run.cov["apalache_full_range"] = out
    if out.get("fixed_InRange") == "Error" or out.get("fixed_NoDivZero") == "Error":
        raise vlib.Inconclusive("Apalache refutes the tail arithmetic of SyncerTailInt.tla over the 64-bit ranges (see %s): the "
                                "counterexample has to be turned into a row of SyncerTail.tla and replayed" % wd)
    if out.get("old_InRange") == "NoError" or out.get("old_NoDivZero") == "NoError":
        raise vlib.Inconclusive("Apalache self-test failed: the unguarded arithmetic was not refuted")
