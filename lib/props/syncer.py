"""Syncer family — C15 (bifurcation), C16 (tail), C19 (Head), C07 (liveness), C03 (safety)."""
import os, random, collections, json
import vlib
from . import register
from .p2p import judge


@register("C15")
def c15(run):
    quick = run.tier == "quick"
    rnd = random.Random(vlib.seed())
    consts = {"MaxD": 8, "AllTrustUpTo": 4, "MaxR": 3} if quick else {"MaxD": 40, "AllTrustUpTo": 5, "MaxR": 6}
    res = vlib.tlc(run.pid, "table", "Bifurcation", "Bifurcation.cfg", export_key="C15", workers=8, constants=consts, timeout=3000)
    vlib.require_tlc_ok(res, "Bifurcation.tla")
    run.add_tlc("Bifurcation.tla: verifyBifurcating transcribed; all trust predicates up to distance %d, interval predicates up to distance %d, "
                "forged/valid candidate, getter failure at step 0..3, forged intermediate" % (consts["AllTrustUpTo"], consts["MaxD"]), res)
    cases = res.exported
    total = len(cases)
    cap_ = 2500 if quick else 40000
    if total > cap_:
        cases = rnd.sample(cases, cap_)
    for i, c in enumerate(cases):
        c["id"] = i
    run.cov["rows_total"], run.cov["rows_executed"] = total, len(cases)
    run.cov["exhaustive"] = total == len(cases)
    for c in cases[:2] + cases[-1:]:
        run.sample({"in": c["in"], "predicted": c["predicted"]})
    run.cov["rule"] = ("every (distance, trust predicate, forged?, getter failure step, forged intermediate) row of Bifurcation.tla is delivered to the real Syncer "
                       "(store at the subjective head, harness header type with that trust predicate, scripted getter); compared: accept/refuse, the exact "
                       "GetByHeight height sequence, promoted intermediates (verif hook), Syncer.Head(); non-trivial = bifurcation needed getter calls; distinct = distinct row")
    run.assumptions += ["non-adjacent verification outcome is given by the row's trust predicate installed in the harness header type",
                        "forged = bad signature: fails hard when adjacent, soft otherwise"]
    judge(run, cases, "TestBifurcation", "BifurcationTrace", ["C15_"], shards=8, pkg="synch")
