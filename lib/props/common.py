"""Helpers shared by the per-property flows."""
import os, json, collections
import vlib


def replay(run, pkg, cases, env=None, binname=None, timeout=3600, race=False, test="TestReplay", shards=1):
    """Build the harness package against /repo, replay `cases`, fold the results into `run`.
    Returns the list of result records."""
    pid = run.pid
    wd = vlib.workdir(pid)
    binp = os.path.join(wd, (binname or pkg.replace("/", "_")) + ".test")
    vlib.go_build_test(pkg, binp, race=race)
    results = []
    shards = max(1, min(shards, len(cases) or 1))
    import subprocess, concurrent.futures
    def one(si):
        part = cases[si::shards]
        cp = os.path.join(wd, "%s_cases_%d.ndjson" % (pkg.replace("/", "_"), si))
        op = os.path.join(wd, "%s_out_%d.ndjson" % (pkg.replace("/", "_"), si))
        vlib.write_ndjson(cp, part)
        if os.path.exists(op):
            os.remove(op)
        e = {"VH_CASES": cp, "VH_OUT": op, "VERIF_TIER": run.tier, "VERIF_SEED": vlib.seed()}
        if env:
            e.update(env)
        r = vlib.run_bin(binp, ["-test.run", "^%s$" % test, "-test.timeout", "%ds" % timeout, "-test.count", "1"],
                         env_extra=e, timeout=timeout + 60)
        recs = vlib.read_ndjson(op)
        return part, r, recs
    with concurrent.futures.ThreadPoolExecutor(max_workers=shards) as ex:
        outs = list(ex.map(one, range(shards)))
    for part, r, recs in outs:
        seen = {x.get("id") for x in recs}
        if r.returncode != 0:
            # the driver process died: a crash inside go-header code while a case was running is a
            # violation attributed to that case (marker line written before each case); anything else
            # is inconclusive.
            tail = (r.stdout[-3000:] + r.stderr[-3000:])
            crash = [x for x in recs if x.get("verdict") == "running"]
            if "panic:" in tail and ("go-header" in tail or "/repo/" in tail) and recs:
                last = recs[-1]
                results.append({"id": last.get("id"), "verdict": "violation",
                                "sig": dict(last.get("sig") or {}, symptom="process_crash"),
                                "detail": "driver process crashed inside go-header: " + tail[-1500:]})
            else:
                raise vlib.Inconclusive("driver %s failed (rc=%s):\n%s" % (pkg, r.returncode, tail))
        results.extend(recs)
    fold(run, results)
    return results


def fold(run, results):
    keys = set()
    for r in results:
        v = r.get("verdict")
        if v in ("running", "info"):
            continue
        run.cov["evaluations"] += 1
        if r.get("from_tlc", True):
            run.cov["traces_validated_against_impl"] += 1
        if r.get("nontriv") and r.get("key") is not None:
            keys.add(r["key"])
        if v == "violation":
            run.violation(r.get("sig") or {}, r.get("detail"))
        elif v == "drift":
            run.drift(r.get("detail") or "")
    run.cov["distinct_nontrivial"] += len(keys)
