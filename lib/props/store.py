"""Store family — C04, C06, C08, C14: Store.tla (design check + transition-cover export),
replay on the real store.Store (harness/storeh), property-layer evaluation of the recorded
traces by TLC (StoreTrace.tla)."""
import os, random, concurrent.futures, collections, json
import vlib
from . import register
from .common import fold

MC_INV = ("TypeOK C04_RangeReadable C04_LiveReadable C04_HeadTopOfRun C04_HeightIsHead C08_GoneForGood "
          "C08_Pointers C06_DiskPointers C06_DiskTail PendImpliesInit C06_ContinuationAdvances")
MC_PROPS = "C08_RejectsOthers C08_OutsideUntouched C08_PointersAfter C14_CallsMatchGone C14_FailureKeeps C06_CleanRestartSame"


def known_tags(pid):
    return sorted({f["id"] for f in vlib.load_known() if f.get("status") == "open" and f.get("model_tag")})


def cfg_text(n, b, maxops, maxbatch, ctx, faults, crashes, known, export, props=True):
    t = ["CONSTANTS N = %d" % n, " B = %d" % b, " MaxOps = %d" % maxops, " MaxBatch = %d" % maxbatch,
         " Ctx = %s" % ("TRUE" if ctx else "FALSE"), " Faults = %s" % ("TRUE" if faults else "FALSE"),
         " Crashes = %s" % ("TRUE" if crashes else "FALSE"),
         " Known = {%s}" % ", ".join('"%s"' % k for k in known),
         "INIT Init", "NEXT Next", "VIEW " + ("view" if export else "viewD"), "INVARIANTS " + MC_INV, "CHECK_DEADLOCK FALSE"]
    if export:
        t.append("CONSTRAINT ExportEdge")
    elif props:
        t.append("PROPERTIES " + MC_PROPS)
    return "\n".join(t) + "\n"


def run_tlc_cfg(run, name, text, export, workers, timeout=3000):
    open(os.path.join(vlib.SPEC, "_gen_%s_%s.cfg" % (run.pid, name)), "w").write(text)
    try:
        return vlib.tlc(run.pid, name, "Store", "_gen_%s_%s.cfg" % (run.pid, name), workers=workers,
                        export_key="STORE" if export else None, timeout=timeout)
    finally:
        os.remove(os.path.join(vlib.SPEC, "_gen_%s_%s.cfg" % (run.pid, name)))


def is_rejected_delete(c):
    op = c["hist"][-1]["op"]
    return op["op"] == "delete" and op["kind"] not in ("wipe", "tail", "head")


def replay_and_judge(run, cases, crash, prefixes, shards=None):
    """replay on the real Store, evaluate traces with StoreTrace.tla, fold FAIL records whose
    predicate belongs to this property into violations."""
    pid = run.pid
    wd = vlib.workdir(pid)
    binp = os.path.join(wd, "storeh.test")
    vlib.go_build_test("storeh", binp)
    for i, c in enumerate(cases):
        c["id"] = i
    if shards is None:
        shards = 8 if run.tier == "quick" else 16
    shards = max(1, min(shards, len(cases)))

    def one(si):
        part = cases[si::shards]
        cp = os.path.join(wd, "cases_%d.ndjson" % si)
        op = os.path.join(wd, "out_%d.ndjson" % si)
        tp = os.path.join(wd, "trace_%d.ndjson" % si)
        vlib.write_ndjson(cp, part)
        for p in (op, tp):
            if os.path.exists(p):
                os.remove(p)
        env = {"VH_CASES": cp, "VH_OUT": op, "VH_TRACE": tp, "VH_CRASH": "1" if crash else "0",
               "GOLOG_LOG_LEVEL": "error", "VERIF_SEED": vlib.seed()}
        r = vlib.run_bin(binp, ["-test.run", "^TestReplay$", "-test.timeout", "3000s", "-test.count", "1"],
                         env_extra=env, timeout=3100)
        recs = vlib.read_ndjson(op)
        crashinfo = None
        if r.returncode != 0:
            crashinfo = (r.stdout[-2500:] + r.stderr[-2500:])
        # property-layer evaluation by TLC
        nev = sum(1 for _ in open(tp)) if os.path.exists(tp) else 0
        fails, tv = [], None
        if nev:
            tv = vlib.tlc(pid, "tv_%d" % si, "StoreTrace", "StoreTrace.cfg", workers=1, env_extra={"TRACE": tp},
                          export_key="FAIL", heap="3g" if run.tier == "quick" else "7g", timeout=6000)
            fails = tv.exported
        return part, recs, crashinfo, nev, fails, tv

    with concurrent.futures.ThreadPoolExecutor(max_workers=shards) as ex:
        outs = list(ex.map(one, range(shards)))
    results = []
    nev_total = 0
    by_id = {c["id"]: c for c in cases}
    fail_counter = collections.Counter()
    for part, recs, crashinfo, nev, fails, tv in outs:
        if crashinfo is not None:
            done = {r["id"] for r in recs}
            nxt = [c for c in part if c["id"] not in done]
            if "panic" in crashinfo and ("go-header" in crashinfo or "/repo/" in crashinfo) and nxt:
                c = nxt[0]
                run.violation({"family": "store", "symptom": "process_crash", "last_op": c["hist"][-1]["op"]["op"],
                               "kind": c["hist"][-1]["op"]["kind"]},
                              "process crashed inside go-header while replaying %s\n%s" % (json.dumps(c["hist"])[:1500], crashinfo[-1500:]))
            else:
                raise vlib.Inconclusive("store driver failed:\n" + crashinfo)
        if tv is not None:
            if tv.error or not tv.ok:
                raise vlib.Inconclusive("trace evaluation failed: %s" % ((tv.error or tv.stdout)[-2000:]))
            run.cov["states"] += tv.distinct
            run.cov["transitions"] += tv.generated
        nev_total += nev
        results.extend(recs)
        for f in fails:
            mine = [p for p in f["preds"] if p.startswith(tuple(prefixes))]
            if not mine:
                continue
            c = by_id.get(f["tr"])
            hist = c["hist"] if c else []
            lastop = hist[-1]["op"] if hist else {}
            for p in mine:
                fail_counter[p] += 1
                sig = {"family": "store", "pred": p, "op": f["op"], "flavour": "ctx" if (c and c["ctx"]) else "plain",
                       "last_kind": lastop.get("kind", ""), "last_op": lastop.get("op", "")}
                ops = [(h["op"]["op"], h["op"]["b"] or [h["op"]["from"], h["op"]["to"], h["op"]["failAt"]]) for h in hist]
                run.violation(sig, "clause %s fails at step %s (%s) of behaviour %s [%s]" % (p, f["i"], f["op"], ops, f["cfg"]))
    fold(run, results)
    run.cov["trace_events_evaluated"] = nev_total
    run.cov["failed_clauses"] = dict(fail_counter)
    return results


def parallel_scenarios(rnd, count):
    """Hand-built scenarios for the parallel delete path (not modelled deterministically in Store.tla: worker
    interleaving decides which headers above a failing one are already gone): store 1..M flushed, parallel
    tail-side deletion with handler failures at one or two heights, parallel retry, restart.  Judged by the
    C08/C14 clauses of StoreTrace.tla only."""
    def op(**kw):
        d = {"op": "none", "b": [], "from": 0, "to": 0, "failAt": 0, "res": "ok", "calls": [], "gone": [], "kind": "", "ws": []}
        d.update(kw)
        return {"op": d, "proj": {}, "live": [], "deleted": []}
    out = []
    for i in range(count):
        m = rnd.randint(5, 9)
        to = rnd.randint(3, m + 1)
        fails = sorted(rnd.sample(range(1, to), min(rnd.choice((1, 2, 2)), to - 1)))
        hist = [op(op="append", b=list(range(1, m + 1))), op(op="sync"),
                op(op="delete", **{"from": 1, "to": to, "failAt": fails[0], "failSet": fails, "par": True, "kind": "tail"})]
        # retry from wherever the tail ended up is expressed as a second delete with from=0 meaning "current tail"
        hist.append(op(op="delete", **{"from": -1, "to": to, "par": True, "kind": "tail"}))
        if rnd.random() < 0.5:
            hist += [op(op="stop"), op(op="start")]
        out.append({"k": "STORE", "n": m, "bsz": rnd.choice((1, 2, 64)), "ctx": rnd.random() < 0.5, "hist": hist, "variant": "free"})
        if i % 4 == 0:
            # the same store, a parallel tail-side deletion without handler failures whose k-th datastore write (a worker's
            # batch commit on the context-aware flavour) fails; the deletion is retried
            hist2 = [op(op="append", b=list(range(1, m + 1))), op(op="sync"),
                     op(op="delete", **{"from": 1, "to": to, "par": True, "kind": "tail"})]
            out.append({"k": "STORE", "n": m, "bsz": rnd.choice((1, 2, 64)), "ctx": i % 8 == 0, "hist": hist2,
                        "variant": "free+dfail:%d" % rnd.randint(1, 3)})
    return out


def long_scenarios(rnd, count):
    """Hand-built scenarios beyond the model's four heights (judged by the C04 / restart clauses of StoreTrace.tla only):
    a long island above a gap that is flushed before the gap is filled (head must walk to its end, for any cache size),
    the same below the tail, a batch that starts at Head+1 and has a hole inside, gap fills in several steps."""
    def op(**kw):
        d = {"op": "none", "b": [], "from": 0, "to": 0, "failAt": 0, "res": "ok", "calls": [], "gone": [], "kind": "", "ws": []}
        d.update(kw)
        return {"op": d, "proj": {}, "live": [], "deleted": []}
    out = []
    for i in range(count):
        kind = i % 4
        hist = []
        if kind == 0:      # island above
            g = rnd.randint(2, 3)
            top = g + rnd.randint(4, 9)
            hist = [op(op="append", b=list(range(1, g))), op(op="append", b=list(range(g + 1, top + 1))), op(op="sync"),
                    op(op="append", b=[g]), op(op="sync")]
            n = top
        elif kind == 1:    # island below the tail
            lo = rnd.randint(4, 8)
            hist = [op(op="append", b=[lo + 2, lo + 3]), op(op="sync"), op(op="append", b=list(range(1, lo + 1))), op(op="sync"),
                    op(op="append", b=[lo + 1]), op(op="sync")]
            n = lo + 3
        elif kind == 2:    # a batch with a hole that starts right above the head
            k = rnd.randint(2, 5)
            hist = [op(op="append", b=list(range(1, k + 1))), op(op="append", b=[k + 1, k + 2, k + 4, k + 5]), op(op="sync"),
                    op(op="append", b=[k + 3]), op(op="sync")]
            n = k + 5
        else:              # two gaps filled in the "wrong" order
            hist = [op(op="append", b=[1]), op(op="append", b=[3, 4]), op(op="append", b=[6, 7, 8]), op(op="sync"),
                    op(op="append", b=[5]), op(op="sync"), op(op="append", b=[2]), op(op="sync")]
            n = 8
        if rnd.random() < 0.5:
            hist += [op(op="stop"), op(op="start")]
        out.append({"k": "STORE", "n": n, "bsz": rnd.choice((1, 2, 3, 64)), "ctx": rnd.random() < 0.5, "hist": hist, "variant": "free"})
    return out


def reent_scenarios(rnd, count):
    """Hand-built scenarios of reentrant use (judged by the property layer only): while the OnDelete handlers of one
    header of a deletion run, the first handler appends the headers right above the head and waits until the flush loop
    has taken them in.  This is an Append that lands in the pending batch *during* a DeleteRange — the one interleaving of
    a deletion with an append that can be produced deterministically through the public API.  Tail-side and head-side
    ranges, the handler position anywhere in the range (for a head-side range including the head itself), batch sizes
    that keep the new headers pending; afterwards Sync, more appends that fill what the deletion removed, restart."""
    def op(**kw):
        d = {"op": "none", "b": [], "from": 0, "to": 0, "failAt": 0, "res": "ok", "calls": [], "gone": [], "kind": "", "ws": []}
        d.update(kw)
        return {"op": d, "proj": {}, "live": [], "deleted": []}
    out = []
    for i in range(count):
        m = rnd.randint(3, 7)
        k = rnd.randint(1, 2)                    # how many headers the handler appends above the head
        above = list(range(m + 1, m + 1 + k))
        hist = [op(op="append", b=list(range(1, m + 1))), op(op="sync")]
        if i % 2 == 0:                           # head-side: [frm, m+1)
            frm = rnd.randint(2, m)
            at = rnd.choice((m, m, rnd.randint(frm, m)))
            hist.append(op(op="delete", **{"from": frm, "to": m + 1, "kind": "head", "appendAt": at, "appendB": above}))
            hist.append(op(op="sync"))
            if rnd.random() < 0.6:               # fill what was removed again: the head walks over the island above
                hist += [op(op="append", b=list(range(frm, m + 1))), op(op="sync")]
        else:                                    # tail-side: [1, to)
            to = rnd.randint(2, m)
            at = rnd.randint(1, to - 1)
            hist.append(op(op="delete", **{"from": 1, "to": to, "kind": "tail", "appendAt": at, "appendB": above}))
            hist.append(op(op="sync"))
        if rnd.random() < 0.5:
            hist += [op(op="stop"), op(op="start")]
        out.append({"k": "STORE", "n": m + k, "bsz": rnd.choice((2, 3, 64, 64)), "ctx": rnd.random() < 0.5, "hist": hist, "variant": "free"})
    return out


def family(run, prefixes, faults, crash, variants=None):
    variants = variants or {}
    quick = run.tier == "quick"
    rnd = random.Random(vlib.seed())
    known = known_tags(run.pid)
    # 1. design-level check: every reachable state of the bounded model satisfies the property layer
    n_mc, ops_mc = (4, 4) if quick else (4, 6)
    design_cex = []
    for b in ((2,) if quick else (1, 2, 3)):
        for ctx in ((False,) if quick and not crash else (False, True)):
            res = run_tlc_cfg(run, "mc_b%d_%s" % (b, "ctx" if ctx else "plain"),
                              cfg_text(n_mc, b, ops_mc, 2, ctx, faults, crash, known, export=False), False, workers=8)
            if res.violated and not res.error:
                # design-level counterexample: not a verdict by itself — the replay below decides on the real code
                design_cex.append("%s (B=%d ctx=%s)" % (res.violated, b, ctx))
                vlib.log("DESIGN-COUNTEREXAMPLE property=%s Store.tla violates %s for B=%d ctx=%s; replaying on the code"
                         % (run.pid, res.violated, b, ctx))
            else:
                vlib.require_tlc_ok(res, "Store.tla design check B=%d ctx=%s" % (b, ctx))
            run.add_tlc("Store.tla N=%d B=%d MaxOps=%d ctx=%s faults=%s crashes=%s" % (n_mc, b, ops_mc, ctx, faults, crash), res)
    # 2. transition-cover export (crash-free behaviours; the harness enumerates crash prefixes itself)
    cases = []
    n_ex, ops_ex = (3, 4) if quick else (4, 5)
    for b in (1, 2, 3):
        for ctx in (False, True):
            res = run_tlc_cfg(run, "ex_b%d_%s" % (b, "ctx" if ctx else "plain"),
                              cfg_text(n_ex, b, ops_ex, 2, ctx, faults, False, known, export=True), True, workers=1)
            vlib.require_tlc_ok(res, "Store.tla export B=%d ctx=%s" % (b, ctx))
            run.add_tlc("Store.tla export N=%d B=%d MaxOps=%d ctx=%s" % (n_ex, b, ops_ex, ctx), res)
            cases.extend(res.exported)
    total_edges = len(cases)
    keep = []
    frac_rej = 0.12 if quick else 0.25
    frac_other = 1.0
    if crash and quick:
        frac_other, frac_rej = 0.5, 0.03
    for c in cases:
        f = frac_rej if is_rejected_delete(c) else frac_other
        if quick and c["hist"][-1]["op"].get("fk") == "timeout":
            f = min(f, 0.3)
        if f >= 1.0 or rnd.random() < f:
            keep.append(c)
    # replay variants: the same behaviour driven differently (see harness/storeh variant)
    extra = []
    for c in keep:
        ops = [h["op"] for h in c["hist"]]
        lastop = ops[-1]
        if variants.get("nowait") and any(ops[i]["op"] == "append" and ops[i + 1]["op"] in ("delete", "stop") for i in range(len(ops) - 1)):
            if rnd.random() < variants["nowait"]:
                extra.append(dict(c, variant="nowait"))
        if variants.get("parallel") and lastop["op"] == "delete" and lastop["kind"] in ("wipe", "tail", "head") \
                and lastop["to"] - lastop["from"] >= 2 and rnd.random() < variants["parallel"]:
            extra.append(dict(c, variant="parallel"))
        if variants.get("wfail"):
            # N consecutive failing writes placed on the commit of the last op, or of the Stop that precedes a final Start
            js = [j for j in (len(ops) - 1, len(ops) - 2) if j >= 0 and ops[j]["op"] in ("append", "sync", "stop") and ops[j]["ws"]
                  and (j == len(ops) - 1 or ops[-1]["op"] == "start")]
            for j in js:
                if rnd.random() < variants["wfail"]:
                    for nfail in (1, 2, 3, 6):   # 6: more than any small retry budget a refactoring might introduce
                        extra.append(dict(c, variant="wfail:%d:%d" % (j, nfail)))
    if variants.get("sameobj"):
        for c in keep:
            if rnd.random() < variants["sameobj"]:
                extra.append(dict(c, variant="sameobj"))
    if variants.get("dfail"):
        # the k-th datastore write of a (handler-wise) successful DeleteRange fails; the deletion is retried
        for c in keep:
            lastop = c["hist"][-1]["op"]
            if lastop["op"] == "delete" and lastop["kind"] in ("wipe", "tail", "head") and lastop["failAt"] == 0 and lastop["res"] == "ok" \
                    and rnd.random() < variants["dfail"]:
                for k in range(1, min(len(lastop["ws"]), 8) + 1):
                    extra.append(dict(c, variant="dfail:%d" % k))
    if variants.get("parscen"):
        extra.extend(parallel_scenarios(rnd, variants["parscen"]))
    if variants.get("longscen"):
        extra.extend(long_scenarios(rnd, variants["longscen"]))
    if variants.get("reent"):
        extra.extend(reent_scenarios(rnd, variants["reent"]))
    run.cov["variant_runs"] = dict(collections.Counter(e["variant"].split(":")[0] for e in extra))
    keep = keep + extra
    run.cov["edges_exported"] = total_edges
    run.cov["edges_replayed"] = len(keep)
    run.cov["exhaustive"] = (len(keep) == total_edges)
    for c in keep[:1] + keep[len(keep) // 2: len(keep) // 2 + 2]:
        run.sample({"n": c["n"], "bsz": c["bsz"], "ctx": c["ctx"],
                    "ops": [dict(op=h["op"]["op"], b=h["op"]["b"], **{"from": h["op"]["from"], "to": h["op"]["to"], "failAt": h["op"]["failAt"]}) for h in c["hist"]],
                    "predicted_final": c["hist"][-1]["proj"]})
    run.cov["rule"] = ("one behaviour per edge of Store.tla's state graph (shortest path to the source state + the edge; "
                       "VIEW hides history), batch sizes 1..3, plain and context-aware datastores, cache sizes 2/64 "
                       "alternating; rejected DeleteRange edges are subsampled by seed in the quick tier; "
                       "non-trivial = behaviour with more than one operation; distinct = distinct operation history")
    replay_and_judge(run, keep, crash, prefixes)
    if design_cex and not run.violations and not run.known_hits:
        raise vlib.Inconclusive("TLC found design-level counterexamples %s that the replay on the real code did not "
                                "reproduce: the specification misrepresents the code" % design_cex)
    run.assumptions += ["header = height on one canonical chain (vh.Header, hash-linked)",
                        "quiescence = testing/synctest Wait (flush goroutine durably blocked)",
                        "caches are transparent in the model; cache sizes 2 and 64 are replay configurations",
                        "datastore = recording in-memory store; context-aware flavour = contextds over a snapshot-transaction store"]


@register("C04")
def c04(run):
    family(run, ["C04_", "C06_clean_restart"], faults=False, crash=False,
           variants={"nowait": 0.3, "wfail": 0.08 if run.tier == "quick" else 0.5, "sameobj": 0.1 if run.tier == "quick" else 0.5,
                     "dfail": 0.3 if run.tier == "quick" else 1.0, "longscen": 80 if run.tier == "quick" else 800,
                     "reent": 120 if run.tier == "quick" else 1200})
    # concurrent callers: an appender's own Append + Sync while other callers' Syncs, flushes and a tail-side deletion are
    # in flight (free schedules through the store's yield points and datastore operations): what it appended is readable
    # once its Sync has returned
    from .conc import explore
    explore(run, "c17", 8000 if run.tier == "quick" else 100000, ["C04_every_appended_header_retrievable_once"])


@register("C08")
def c08(run):
    family(run, ["C08_", "C06_clean_restart"], faults=True, crash=False,
           variants={"nowait": 1.0, "parallel": 0.5 if run.tier == "quick" else 1.0, "parscen": 150 if run.tier == "quick" else 1500,
                     "dfail": 0.15 if run.tier == "quick" else 1.0, "sameobj": 0.08 if run.tier == "quick" else 0.5,
                     "reent": 120 if run.tier == "quick" else 1200})


@register("C14")
def c14(run):
    family(run, ["C14_"], faults=True, crash=False, variants={"nowait": 0.5 if run.tier == "quick" else 1.0,
                                                               "parallel": 1.0, "parscen": 300 if run.tier == "quick" else 3000,
                                                               "sameobj": 0.1 if run.tier == "quick" else 0.5,
                                                               "reent": 80 if run.tier == "quick" else 800})


@register("C06")
def c06(run):
    family(run, ["C06_", "C04_operation_failed", "C04_every_appended", "C04_head_is_top", "C04_tail_le_head_and_range_readable"], faults=False, crash=True,
           variants={"wfail": 0.5 if run.tier == "quick" else 1.0, "nowait": 0.5 if run.tier == "quick" else 1.0,
                     "longscen": 40 if run.tier == "quick" else 400, "dfail": 0.3 if run.tier == "quick" else 1.0})
    # free schedules with a Stop somewhere in the middle of appends and Syncs, then a fresh Store on the same datastore
    from .conc import explore
    explore(run, "c06", 6000 if run.tier == "quick" else 100000, ["C06_", "C04_head_is_top"])
