"""C12 (GetByHeight wake-ups) and C17 (concurrent use): StoreConc.tla schedules replayed through gate hooks."""
import os, random, collections, json, concurrent.futures
import vlib
from . import register
from .common import fold


def conc_cfg(readers, wants, scripts, cancels, known, export, props=True, live=False):
    t = ["CONSTANTS N = 4", " Readers <- %s" % readers, " Wants <- %s" % wants, " Scripts <- %s" % scripts,
         " Cancels = %s" % ("TRUE" if cancels else "FALSE"), " Known = {%s}" % ", ".join('"%s"' % k for k in known),
         "SPECIFICATION Spec" if live else "INIT Init\nNEXT Next", "VIEW view",
         "CHECK_DEADLOCK FALSE"]
    if export:
        t.append("CONSTRAINT ExportEdge")
    else:
        t.append("INVARIANTS NoLostWakeup FoundIsRight NeverNotFound CtxOnlyIfCancel HeightIsHead HeadContiguous")
        t.append("PROPERTIES HeadMonotone" + (" EventuallyReturns" if live else ""))
    return "\n".join(t) + "\n"


def run_cfg(run, name, text, export, workers, timeout=3000):
    fn = "_gen_%s_%s.cfg" % (run.pid, name)
    open(os.path.join(vlib.SPEC, fn), "w").write(text)
    try:
        return vlib.tlc(run.pid, name, "StoreConcMC", fn, workers=workers, export_key="CONC" if export else None, timeout=timeout)
    finally:
        os.remove(os.path.join(vlib.SPEC, fn))


def known_tags():
    return sorted({f["model_tag"] for f in vlib.load_known() if f.get("status") == "open" and f.get("model_tag")})


def replay_conc(run, cases, prefixes, shards=8):
    pid = run.pid
    wd = vlib.workdir(pid)
    binp = os.path.join(wd, "conch.test")
    vlib.go_build_test("conch", binp)
    for i, c in enumerate(cases):
        c["id"] = i
    shards = max(1, min(shards, len(cases)))

    def one(si):
        part = cases[si::shards]
        cp, op, tp = [os.path.join(wd, "%s_%d.ndjson" % (n, si)) for n in ("cases", "out", "trace")]
        vlib.write_ndjson(cp, part)
        for p in (op, tp):
            if os.path.exists(p):
                os.remove(p)
        r = vlib.run_bin(binp, ["-test.run", "^TestReplay$", "-test.timeout", "3000s", "-test.count", "1"],
                         env_extra={"VH_CASES": cp, "VH_OUT": op, "VH_TRACE": tp, "GOLOG_LOG_LEVEL": "error"}, timeout=3100)
        recs = vlib.read_ndjson(op)
        if r.returncode != 0:
            raise vlib.Inconclusive("conch driver failed:\n" + (r.stdout[-2500:] + r.stderr[-2500:]))
        n = sum(1 for _ in open(tp)) if os.path.exists(tp) else 0
        fails, tv = [], None
        if n:
            tv = vlib.tlc(pid, "tv_%d" % si, "StoreConcTrace", "StoreConcTrace.cfg", workers=1, env_extra={"TRACE": tp},
                          export_key="FAIL", heap="2g")
            if tv.error or not tv.ok:
                raise vlib.Inconclusive("trace evaluation failed: %s" % ((tv.error or tv.stdout)[-2000:]))
            fails = tv.exported
        return recs, n, fails, tv

    with concurrent.futures.ThreadPoolExecutor(max_workers=shards) as ex:
        outs = list(ex.map(one, range(shards)))
    by_id = {c["id"]: c for c in cases}
    results, nrec = [], 0
    cnt = collections.Counter()
    for recs, n, fails, tv in outs:
        results.extend(recs)
        nrec += n
        if tv:
            run.cov["states"] += tv.distinct
            run.cov["transitions"] += tv.generated
        for f in fails:
            c = by_id[f["tr"]]
            steps = ["%s%s.%s" % (h["p"], h["id"], h["a"]) for h in c["hist"]]
            lost = f.get("late") or []
            per_reader = f.get("readers") or []
            seen = set()
            for ri, rp in enumerate(per_reader):
                for p in rp:
                    if not p.startswith(tuple(prefixes)):
                        continue
                    seen.add(p)
                    cnt[p] += 1
                    # cause: did this reader subscribe only after the notification for its header had fired?
                    after = bool(lost[ri]) if ri < len(lost) else False
                    run.violation({"family": "conc", "pred": p, "subscribed_after_notification": after},
                                  "clause %s fails for reader %d after schedule %s (want=%s script=%s)" % (p, ri + 1, steps, c["want"], c["script"]))
            for p in f["preds"]:
                if p in seen or not p.startswith(tuple(prefixes)):
                    continue
                cnt[p] += 1
                run.violation({"family": "conc", "pred": p},
                              "clause %s fails after schedule %s (want=%s script=%s)" % (p, steps, c["want"], c["script"]))
    fold(run, results)
    run.cov["schedules_replayed"] = nrec
    run.cov["failed_clauses"] = dict(cnt)


@register("C12")
def c12(run):
    quick = run.tier == "quick"
    known = known_tags()
    rnd = random.Random(vlib.seed())
    design_cex = []
    # design level: safety on two readers, liveness on one reader (fair scheduling)
    for name, text in (("mc_safety", conc_cfg("MCReaders2", "MCWantsQ" if quick else "MCWants", "MCScriptsQuick" if quick else "MCScriptsFull", True, known, False)),
                       ("mc_live", conc_cfg("MCReaders1", "MCWants", "MCScriptsQuick", False, known, False, live=True))):
        res = run_cfg(run, name, text, False, workers=8)
        if res.violated and not res.error:
            design_cex.append(res.violated)
            vlib.log("DESIGN-COUNTEREXAMPLE property=C12 StoreConc.tla violates %s (%s); replaying on the code" % (res.violated, name))
        else:
            vlib.require_tlc_ok(res, "StoreConc.tla " + name)
        run.add_tlc("StoreConc.tla " + name, res)
    res = run_cfg(run, "export", conc_cfg("MCReaders2", "MCWantsQ", "MCScriptsQuick" if quick else "MCScriptsFull", True, known, True), True, workers=1)
    vlib.require_tlc_ok(res, "StoreConc.tla export")
    run.add_tlc("StoreConc.tla export (one schedule per edge)", res)
    cases = res.exported
    total = len(cases)
    if quick and total > 6000:
        cases = rnd.sample(cases, 6000)
    run.cov["edges_exported"], run.cov["edges_replayed"] = total, len(cases)
    run.cov["exhaustive"] = len(cases) == total
    for c in cases[:1] + cases[len(cases) // 2:len(cases) // 2 + 2]:
        run.sample({"want": c["want"], "script": c["script"], "schedule": ["%s%s.%s" % (h["p"], h["id"], h["a"]) for h in c["hist"]]})
    run.cov["rule"] = ("one schedule per edge of StoreConc.tla's state graph (2 readers, batch scripts incl. gapped/out-of-order/queued, "
                       "cancellations); each step = code segment between two yield points; non-trivial = more than 2 steps; "
                       "distinct = distinct step sequence")
    run.assumptions += ["sequential consistency of the atomics/locks at yield-point granularity",
                        "schedules are replayed with blocking verif hooks inside a testing/synctest bubble"]
    replay_conc(run, cases, ["C12_"])
    explore(run, "c12", 8000 if quick else 200000, ["C12_"])
    heightsub_unit(run, 2000 if quick else 60000, ["C12_"])
    if design_cex and not run.violations and not run.known_hits:
        raise vlib.Inconclusive("design-level counterexamples %s not reproduced on the code" % design_cex)


def stress(run, runs, procs=8):
    """un-gated real-thread runs under the race detector; records judged by StoreConcTrace.tla"""
    pid = run.pid
    wd = vlib.workdir(pid)
    binp = os.path.join(wd, "conch_race.test")
    vlib.go_build_test("conch", binp, race=True)
    per = max(1, runs // procs)

    def one(i):
        tp = os.path.join(wd, "stress_%d.ndjson" % i)
        if os.path.exists(tp):
            os.remove(tp)
        r = vlib.run_bin(binp, ["-test.run", "^TestStress$", "-test.timeout", "3000s", "-test.count", "1"],
                         env_extra={"VH_TRACE": tp, "VH_RUNS": per, "VH_IDBASE": i * per, "VERIF_SEED": vlib.seed(),
                                    "GOLOG_LOG_LEVEL": "error", "GORACE": "halt_on_error=0 exitcode=0"}, timeout=3100)
        races = (r.stdout + r.stderr).count("WARNING: DATA RACE")
        if r.returncode != 0:
            tail = r.stdout[-2500:] + r.stderr[-2500:]
            if "panic:" in tail and ("go-header" in tail or "/repo/" in tail):
                return None, races, tail
            raise vlib.Inconclusive("stress driver failed:\n" + tail)
        tv = vlib.tlc(pid, "tvs_%d" % i, "StoreConcTrace", "StoreConcTrace.cfg", workers=1, env_extra={"TRACE": tp},
                      export_key="FAIL", heap="2g")
        if tv.error or not tv.ok:
            raise vlib.Inconclusive("trace evaluation failed: %s" % ((tv.error or tv.stdout)[-2000:]))
        return tv, races, None

    with concurrent.futures.ThreadPoolExecutor(max_workers=procs) as ex:
        outs = list(ex.map(one, range(procs)))
    cnt = collections.Counter()
    races = 0
    for tv, rc, crash in outs:
        races += rc
        if crash:
            run.violation({"family": "conc", "symptom": "process_crash"}, "stress run crashed inside go-header: " + crash[-1500:])
            continue
        run.cov["states"] += tv.distinct
        run.cov["transitions"] += tv.generated
        run.cov["evaluations"] += max(0, tv.distinct - 1)
        run.cov["traces_validated_against_impl"] += max(0, tv.distinct - 1)
        for f in tv.exported:
            for p in f["preds"]:
                cnt[p] += 1
                run.violation({"family": "conc", "pred": p, "mode": "stress"}, "clause %s fails in stress run %s (seed %s)" % (p, f["tr"], vlib.seed()))
    run.cov["stress_runs"] = per * procs
    run.cov["race_detector_reports"] = races
    run.cov.setdefault("failed_clauses", {}).update(dict(cnt))


def explore(run, mode, runs, prefixes, procs=8):
    """seeded random walks over the code's own schedule space (verif yield points + datastore operations as gates),
    judged by StoreConcTrace.tla without any model prediction"""
    pid = run.pid
    wd = vlib.workdir(pid)
    binp = os.path.join(wd, "conch_explore.test")
    vlib.go_build_test("conch", binp)      # always rebuilt from the current tree
    per = max(1, runs // procs)

    def one(i):
        tp, op = os.path.join(wd, "explore_%d.ndjson" % i), os.path.join(wd, "explore_out_%d.ndjson" % i)
        for f in (tp, op):
            if os.path.exists(f):
                os.remove(f)
        r = vlib.run_bin(binp, ["-test.run", "^TestExplore$", "-test.timeout", "900s" if run.tier == "quick" else "3000s", "-test.count", "1"],
                         env_extra={"VH_TRACE": tp, "VH_OUT": op, "VH_RUNS": per, "VH_IDBASE": 1000000 + i * per, "VH_MODE": mode,
                                    "VERIF_SEED": vlib.seed(), "GOLOG_LOG_LEVEL": "error"}, timeout=3100)
        if r.returncode != 0:
            tail = r.stdout[-2500:] + r.stderr[-2500:]
            if "panic:" in tail and ("go-header" in tail or "/repo/" in tail) and "synctest" not in tail.split("panic:")[1][:200]:
                return None, [], tail
            raise vlib.Inconclusive("explore driver failed:\n" + tail)
        tv = vlib.tlc(pid, "tve_%d" % i, "StoreConcTrace", "StoreConcTrace.cfg", workers=1, env_extra={"TRACE": tp},
                      export_key="FAIL", heap="2g")
        if tv.error or not tv.ok:
            raise vlib.Inconclusive("trace evaluation failed: %s" % ((tv.error or tv.stdout)[-2000:]))
        cfgs = {}
        for rec in vlib.read_ndjson(tp):
            cfgs[rec["tr"]] = rec.get("cfg", "")
        return (tv, cfgs), vlib.read_ndjson(op), None

    with concurrent.futures.ThreadPoolExecutor(max_workers=procs) as ex:
        outs = list(ex.map(one, range(procs)))
    cnt = collections.Counter()
    results = []
    for tvc, recs, crash in outs:
        if crash:
            run.violation({"family": "conc", "symptom": "process_crash", "mode": "explore"}, "free schedule crashed inside go-header: " + crash[-1500:])
            continue
        tv, cfgs = tvc
        for r in recs:
            r["from_tlc"] = False
        results.extend(recs)
        run.cov["states"] += tv.distinct
        run.cov["transitions"] += tv.generated
        for f in tv.exported:
            late = f.get("late") or []
            seen = set()
            for ri, rp in enumerate(f.get("readers") or []):
                for p in rp:
                    if not p.startswith(tuple(prefixes)):
                        continue
                    seen.add(p)
                    cnt[p] += 1
                    after = bool(late[ri]) if ri < len(late) else False
                    run.violation({"family": "conc", "pred": p, "subscribed_after_notification": after, "mode": "explore"},
                                  "clause %s fails for reader %d in free schedule %s (seed %s): %s" % (p, ri + 1, f["tr"], vlib.seed(), cfgs.get(f["tr"], "")))
            for p in f["preds"]:
                if p in seen or not p.startswith(tuple(prefixes)):
                    continue
                cnt[p] += 1
                run.violation({"family": "conc", "pred": p, "mode": "explore"},
                              "clause %s fails in free schedule %s (seed %s): %s" % (p, f["tr"], vlib.seed(), cfgs.get(f["tr"], "")))
    fold(run, results)
    run.cov["free_schedules"] = per * procs
    fc = dict(run.cov.get("failed_clauses", {}))
    for k2, v2 in cnt.items():
        fc[k2] = fc.get(k2, 0) + v2
    run.cov["failed_clauses"] = fc


def heightsub_unit(run, runs, prefixes, procs=4):
    """store/heightsub.go as a unit.  (1) HeightSub.tla model-checked by TLC (2 concurrent SetHeight callers, Notify,
    1..2 waiters with cancellation): HeightMonotone, OkIsStored, NoLostWakeup, CancelReleases ...; the variant without the
    compare-and-swap loop must be refuted (self-test).  (2) seeded walks over the real heightSub's own schedule space
    (TestHeightSub), every step validated against the same transition function (HeightSubTrace.tla): a step the model
    cannot explain is model drift, the C12 / C17 clauses are evaluated on the recorded observations."""
    pid = run.pid
    quick = run.tier == "quick"
    waiters = '{"W1"}' if quick else '{"W1", "W2"}'
    res = vlib.tlc(pid, "hs_mc", "HeightSub", "HeightSub.cfg", workers=8, constants={"Waiters": waiters}, timeout=3000)
    vlib.require_tlc_ok(res, "HeightSub.tla")
    run.add_tlc("HeightSub.tla (CAS loop): HeightMonotone OkIsStored ElapsedIsRight NoLostWakeup CancelReleases HeightIsStored", res)
    bad = vlib.tlc(pid, "hs_nocas", "HeightSub", "HeightSubNoCAS.cfg", workers=4, constants={"Waiters": '{"W1"}'}, timeout=1200)
    if bad.error or "HeightMonotone" not in (bad.violated or ""):
        raise vlib.Inconclusive("self-test: HeightSub.tla without the compare-and-swap loop was not refuted (%s)" % (bad.error or bad.violated))
    run.cov["heightsub_selftest"] = "variant without the CAS loop refuted: HeightMonotone violated after %d states" % bad.generated
    live = vlib.tlc(pid, "hs_live", "HeightSub", "HeightSubLive.cfg", workers=4, timeout=1500,
                    constants={"MaxH": 2 if quick else 3, "MaxG": 2 if quick else 3})
    vlib.require_tlc_ok(live, "HeightSub.tla liveness")
    run.add_tlc("HeightSub.tla EventuallyReturns under weak fairness of every goroutine's steps (2 setters, 1 waiter)", live)
    obs = vlib.tlc(pid, "hs_init", "HeightSub", "HeightSubInit.cfg", workers=4, timeout=1200)
    if obs.error or "OkWasAvailable" not in (obs.violated or ""):
        raise vlib.Inconclusive("HeightSub.tla with Init calls: the recorded observation (OkWasAvailable refuted) did not show (%s)" % (obs.error or obs.violated))
    run.cov["heightsub_observation"] = ("with deletions (Init calls) in the history a cancelled waiter whose record was closed meanwhile may release a later "
                                        "waiter of the same height: OkWasAvailable refuted by TLC as expected; outside C12's quantifier, reported under OBS_ in the walks")
    wd = vlib.workdir(pid)
    binp = os.path.join(wd, "conch_hs.test")
    vlib.go_build_test("conch", binp)
    per = max(1, runs // procs)

    def one(i):
        tp = os.path.join(wd, "hs_%d.ndjson" % i)
        if os.path.exists(tp):
            os.remove(tp)
        r = vlib.run_bin(binp, ["-test.run", "^TestHeightSub$", "-test.timeout", "1500s", "-test.count", "1"],
                         env_extra={"VH_TRACE": tp, "VH_RUNS": per, "VH_IDBASE": 2000000 + i * per, "VERIF_SEED": vlib.seed(),
                                    "GOLOG_LOG_LEVEL": "error"}, timeout=1600)
        if r.returncode != 0:
            tail = r.stdout[-2500:] + r.stderr[-2500:]
            if "panic:" in tail and ("go-header" in tail or "/repo/" in tail) and "synctest" not in tail.split("panic:")[1][:200]:
                return None, tail
            if "deadlock" in tail and "synctest" in tail:
                # every goroutine of the bubble is blocked for good although all contexts were cancelled
                return None, "bubble deadlocked: " + tail
            raise vlib.Inconclusive("heightSub driver failed:\n" + tail)
        tv = vlib.tlc(pid, "tvh_%d" % i, "HeightSubTrace", "HeightSubTrace.cfg", workers=1, env_extra={"TRACE": tp}, heap="2g", timeout=1500)
        if tv.error or not tv.ok:
            raise vlib.Inconclusive("heightSub trace validation failed: %s" % ((tv.error or tv.stdout)[-2000:]))
        return tv, None

    with concurrent.futures.ThreadPoolExecutor(max_workers=procs) as ex:
        outs = list(ex.map(one, range(procs)))
    cnt = collections.Counter()
    drift = 0
    for tv, crash in outs:
        if crash:
            run.violation({"family": "conc", "symptom": "process_crash", "mode": "heightsub"}, "heightSub walk crashed inside go-header: " + crash[-1500:])
            continue
        run.cov["states"] += tv.distinct
        run.cov["transitions"] += tv.generated
        run.cov["traces_validated_against_impl"] += per
        run.cov["evaluations"] += max(0, tv.distinct - 1)
        for f in tv.exported:
            if f.get("k") == "DRIFT":
                drift += 1
                if drift <= 3:
                    vlib.log("MODEL-DRIFT property=%s heightSub walk %s step %s (%s %s %s): no successor of HeightSub.tla matches what the code shows [%s]"
                             % (pid, f["tr"], f["i"], f["p"], f["a"], f["x"], f["cfg"]))
                continue
            if f.get("k") != "FAIL":
                continue
            for p in f["preds"]:
                if p.startswith("OBS_"):
                    cnt[p] += 1
                    continue
                if not p.startswith(tuple(prefixes)):
                    continue
                cnt[p] += 1
                run.violation({"family": "conc", "pred": p, "mode": "heightsub"},
                              "clause %s fails at step %s of heightSub walk %s (seed %s) [%s]" % (p, f["i"], f["tr"], vlib.seed(), f["cfg"]))
    run.cov["heightsub_walks"] = per * procs
    run.cov["heightsub_model_drift"] = drift
    fc = dict(run.cov.get("failed_clauses", {}))
    for k2, v2 in cnt.items():
        fc[k2] = fc.get(k2, 0) + v2
    run.cov["failed_clauses"] = fc


@register("C17")
def c17(run):
    quick = run.tier == "quick"
    known = known_tags()
    rnd = random.Random(vlib.seed())
    res = run_cfg(run, "mc", conc_cfg("MCReaders2", "MCWantsQ", "MCScriptsQuick" if quick else "MCScriptsFull", False, known, False), False, workers=8)
    vlib.require_tlc_ok(res, "StoreConc.tla (HeadMonotone, HeightIsHead, HeadContiguous)")
    run.add_tlc("StoreConc.tla safety + HeadMonotone", res)
    res = run_cfg(run, "export", conc_cfg("MCReaders1", "MCWantsQ", "MCScriptsQuick" if quick else "MCScriptsFull", False, known, True), True, workers=1)
    vlib.require_tlc_ok(res, "StoreConc.tla export")
    run.add_tlc("StoreConc.tla export (one schedule per edge)", res)
    cases = res.exported
    total = len(cases)
    if quick and total > 2500:
        cases = rnd.sample(cases, 2500)
    run.cov["edges_exported"], run.cov["edges_replayed"] = total, len(cases)
    for c in cases[:1] + cases[len(cases) // 2:len(cases) // 2 + 1]:
        run.sample({"want": c["want"], "script": c["script"], "schedule": ["%s%s.%s" % (h["p"], h["id"], h["a"]) for h in c["hist"]]})
    run.cov["rule"] = ("gate-level schedules of StoreConc.tla (observer reads Head()/Height() after every step) plus seeded un-gated "
                       "real-thread runs under the race detector (2..4 writers, 2 observers, optional tail-side deleter, batch sizes 1..64); "
                       "non-trivial = schedule with more than 2 steps or any stress run; distinct = distinct schedule / run id")
    run.assumptions += ["race detector reports are diagnostics (counted in coverage), not verdicts",
                        "stress runs use wall-clock real threads: their schedules are not reproducible, their seeds are"]
    replay_conc(run, cases, ["C17_"])
    explore(run, "c17", 24000 if quick else 400000, ["C17_"])
    stress(run, 48 if quick else 1600)
    heightsub_unit(run, 2000 if quick else 60000, ["C17_"])
    run.sample({"stress": "2..4 writers append interleaved chunks of a 40..160 header chain, 2 observers sample Head/Height and re-read the head, optional deleter prunes the tail"})
