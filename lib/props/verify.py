"""C01 (Verify) and C02 (VerifyRange): decision tables from Verify.tla replayed on header.Verify*."""
import random
import vlib
from . import register
from .common import replay


@register("C01")
def c01(run):
    res = vlib.tlc(run.pid, "table", "Verify", "VerifyC01.cfg", export_key="C01", timeout=600)
    vlib.require_tlc_ok(res, "Verify.tla C01 table")
    run.add_tlc("VerifyC01 decision table (1728 inputs, 6 invariants)", res)
    cases = res.exported
    if len(cases) != 1728:
        raise vlib.Inconclusive("expected 1728 exported cases, got %d" % len(cases))
    for c in cases[:2] + cases[900:902]:
        run.sample(c)
    run.cov["exhaustive"] = True
    run.cov["rule"] = ("every abstract input of Verify.tla (zero x zero x chain x height relation x time relation x "
                       "now relation x type-level result) is one case; thorough adds 4 concrete height/time variants "
                       "per case; non-trivial = the call is rejected; distinct = distinct abstract input")
    run.assumptions += ["type-level Verify outcomes are scripted through the harness header type vh.Header",
                        "clockDrift read through the verif-tagged accessor header.VerifClockDrift",
                        "time is frozen by testing/synctest so the drift boundary is hit exactly"]
    replay(run, "verifyh", cases)


@register("C02")
def c02(run):
    maxlen = 3 if run.tier == "quick" else 5
    res = vlib.tlc(run.pid, "table", "Verify", "VerifyC02.cfg", export_key="C02", timeout=1800,
                   constants={"MaxLen": maxlen})
    vlib.require_tlc_ok(res, "Verify.tla C02 table")
    run.add_tlc("VerifyC02 all sequences of length <= %d over 10 element kinds" % maxlen, res)
    cases = res.exported
    # seeded longer sequences (length 4..8): generated here, judged by the same Allowed rule
    # (allowedN computed by the transcription below is cross-checked against TLC on the short ones)
    rnd = random.Random(vlib.seed())
    kinds = ["ok1", "ok2", "same", "lower", "zero", "wrongchain", "timeback", "future", "typehard", "typesoft"]
    def good(seq, tz):
        if tz:
            return 0
        n = 0
        for i, k in enumerate(seq):
            if k == "ok1" or (k == "ok2" and i == 0):
                n += 1
            else:
                break
        return n
    for c in cases:   # cross-check the python transcription used for the long samples
        if [good(c["seq"], c["tZero"])] != c["allowedN"]:
            raise vlib.Inconclusive("python transcription of GoodPrefix disagrees with TLC on %r" % c)
    extra = []
    for _ in range(2000 if run.tier == "quick" else 20000):
        ln = rnd.randint(maxlen + 1, 8)
        seq = [rnd.choice(kinds) if rnd.random() < 0.35 else "ok1" for _ in range(ln)]
        if rnd.random() < 0.3:
            seq[0] = "ok2"
        tz = rnd.random() < 0.05
        n = good(seq, tz)
        extra.append({"k": "C02", "tZero": tz, "seq": seq, "allowedN": [n],
                      "predicted": {"n": n, "nilerr": n == ln, "cls": "?"}, "sampled": True})
    # hand-built: (1) elements dated 8 s per element ahead of the local clock (the first is within the allowed drift, the second
    # is from the future whatever its predecessor's time is); (2) a trusted header of the highest possible height
    for pre in range(0, 4):
        for na in range(2, 5):
            seq = ["ok1"] * pre + ["ahead"] * na
            extra.append({"k": "C02", "tZero": False, "seq": seq, "allowedN": [pre + 1],
                          "predicted": {"n": pre + 1, "nilerr": False, "cls": "?"}, "sampled": True})
    for ln in range(1, 5):
        extra.append({"k": "C02", "tZero": False, "tMax": True, "seq": ["ok1"] * ln, "allowedN": [0],
                      "predicted": {"n": 0, "nilerr": False, "cls": "?"}, "sampled": True})
    # long ranges (33..70 headers) with one defect at every position: whatever is done per chunk, per batch or per
    # goroutine inside VerifyRange must not depend on where in the range the defect sits
    nlong = 0
    for ln in ((33, 48) if run.tier == "quick" else (33, 40, 48, 64, 70)):
        for pos in range(ln):
            for k in (("ok2", "lower", "zero", "typesoft") if run.tier == "quick" else [x for x in kinds if x != "ok1"]):
                if run.tier == "quick" and k != "ok2" and rnd.random() > 0.34:
                    continue
                seq = ["ok1"] * ln
                seq[pos] = k
                n = good(seq, False)
                extra.append({"k": "C02", "tZero": False, "seq": seq, "allowedN": [n],
                              "predicted": {"n": n, "nilerr": n == ln, "cls": "?"}, "sampled": True})
                nlong += 1
    run.cov["long_sequences"] = nlong
    for c in cases[:2] + cases[700:702] + extra[:1]:
        run.sample(c)
    run.cov["exhaustive"] = True
    run.cov["rule"] = ("all sequences of length <= %d over 10 element kinds x trusted zero/non-zero (TLC initial states) "
                       "plus seeded sequences of length %d..8; non-trivial = an error is returned; distinct = distinct "
                       "(sequence, trusted-zero) pair" % (maxlen, maxlen + 1))
    run.assumptions += ["element kinds are concretised relative to the last verified element by the harness"]
    results = replay(run, "verifyh", cases + extra)
    # predicted class is unknown for sampled cases: a drift there is not reported
    run.cov["drift"] = [d for d in run.cov["drift"] if '"cls":"?"' not in d]
