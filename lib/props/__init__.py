REGISTRY = {}

def register(pid):
    def deco(fn):
        REGISTRY[pid] = fn
        return fn
    return deco

from . import verify  # noqa: E402,F401
