REGISTRY = {}

def register(pid):
    def deco(fn):
        REGISTRY[pid] = fn
        return fn
    return deco

from . import verify, store, conc, p2p, syncer  # noqa: E402,F401
