package p2ph

import (
	"context"
	"fmt"
	"math/rand"
	"testing"
	"testing/synctest"
	"time"

	"github.com/celestiaorg/go-header/p2p"
	p2p_pb "github.com/celestiaorg/go-header/p2p/pb"

	"verifharness/mbt"
	"verifharness/vh"
)

// C10Rec is one observed (request, response, store usage) triple judged by ServerTrace.tla.
type C10Rec struct {
	Tr    int            `json:"tr"`
	In    map[string]any `json:"in"`
	Obs   C10Obs         `json:"obs"`
	Reads int            `json:"reads"`
	Panic string         `json:"panic,omitempty"`
	Hung  bool           `json:"hung"`
	// stalled store: virtual milliseconds until the stream was answered or reset, and the server's RequestTimeout
	Stalled   bool `json:"stalled"`
	ElapsedMs int  `json:"elapsedMs"`
	BudgetMs  int  `json:"budgetMs"`
}

type C10Obs struct {
	Status  string  `json:"status"`
	Heights []int   `json:"heights"`
	Spans   [][]int `json:"spans"`
}

func toModel(v uint64) int { // inverse of u64 for logging spans
	if v < 512 {
		return int(v)
	}
	if v > ^uint64(0)-512 {
		return int(1024 - (^v + 1))
	}
	if v > 100000 {
		return 100000
	}
	return int(v)
}

func payloadFor(in map[string]any, chain *vh.Chain, rnd *rand.Rand) []byte {
	switch mbt.Str(in, "kind") {
	case "range":
		return encodeReq(&p2p_pb.HeaderRequest{Data: &p2p_pb.HeaderRequest_Origin{Origin: u64(mbt.Int(in, "origin"))}, Amount: u64(mbt.Int(in, "amount"))})
	case "hash":
		var h []byte
		switch mbt.Str(in, "hk") {
		case "known":
			h = chain.At(uint64(mbt.Int(in, "tail") + 1)).Hash()
		case "unknown":
			h = make([]byte, 32)
			rnd.Read(h)
			if t := mbt.Int(in, "tail"); mbt.Bool(in, "fprune") && t > 1 {
				h = chain.At(uint64(t - 1)).Hash() // a header that has been pruned: unknown to the store
			}
		case "empty":
			h = []byte{}
		case "short":
			h = []byte{1, 2, 3}
		}
		return encodeReq(&p2p_pb.HeaderRequest{Data: &p2p_pb.HeaderRequest_Hash{Hash: h}, Amount: 1})
	}
	valid := encodeReq(&p2p_pb.HeaderRequest{Data: &p2p_pb.HeaderRequest_Origin{Origin: 2}, Amount: 2})
	switch mbt.Str(in, "g") {
	case "none":
		return nil
	case "truncated":
		return valid[:len(valid)/2]
	case "random":
		b := make([]byte, 1+rnd.Intn(40))
		rnd.Read(b)
		return b
	case "oversize":
		return []byte{0xff, 0xff, 0xff, 0xff, 0x0f, 1, 2, 3}
	case "emptydata":
		return encodeReq(&p2p_pb.HeaderRequest{Amount: 3})
	}
	return nil
}

func TestServer(t *testing.T) {
	cases, rw, tw := openIO(t)
	defer rw.Close()
	defer tw.Close()
	rnd := rand.New(rand.NewSource(seed()))
	// group by (tail, head): one store + server per group and bubble
	type key struct {
		t, h int
		f    bool // pruned with an interrupted and retried deletion
	}
	groups := map[key][]map[string]any{}
	var order []key
	for _, c := range cases {
		in := mbt.Map(c, "in")
		k := key{mbt.Int(in, "tail"), mbt.Int(in, "head"), mbt.Bool(in, "fprune")}
		if _, ok := groups[k]; !ok {
			order = append(order, k)
		}
		groups[k] = append(groups[k], c)
	}
	for _, k := range order {
		synctest.Test(t, func(t *testing.T) {
			chain := vh.NewChain(networkID, 1, k.h+3, time.Now().Add(-time.Hour), time.Second, 0)
			pruneFault = k.f
			st, rs := newStore(t, chain, k.t, k.h)
			pruneFault = false
			proxy := &storeProxy{Store: st}
			net, hosts := newNet(t, 2)
			srv, err := p2p.NewExchangeServer[*vh.Header](hosts[1], proxy, p2p.WithNetworkID[p2p.ServerParameters](networkID))
			if err != nil {
				t.Fatal(err)
			}
			bg := context.Background()
			if err := srv.Start(bg); err != nil {
				t.Fatal(err)
			}
			for _, c := range groups[k] {
				in := mbt.Map(c, "in")
				id := mbt.Int(c, "id")
				proxy.reset()
				rs.Reads = 0
				payload := payloadFor(in, chain, rnd)
				rec := C10Rec{Tr: id, In: in, Stalled: mbt.Bool(in, "stall"), BudgetMs: int(p2p.DefaultServerParameters().RequestTimeout / time.Millisecond)}
				proxy.mu.Lock()
				proxy.stall = rec.Stalled
				proxy.mu.Unlock()
				done := make(chan rawResp, 1)
				t0 := time.Now()
				var t1 time.Time
				go func() {
					ctx, cancel := context.WithTimeout(bg, 10*time.Minute)
					defer cancel()
					r := rawRequest(ctx, hosts[0], hosts[1], payload, chain)
					t1 = time.Now()
					done <- r
				}()
				synctest.Wait()
				var r rawResp
				select {
				case r = <-done:
				default:
					// not answered although everything is quiescent: let virtual time pass the server's timeouts
					time.Sleep(3 * time.Minute)
					synctest.Wait()
					select {
					case r = <-done:
					default:
						rec.Hung = true
						r = rawResp{Status: "hung", Heights: []int{}}
					}
				}
				proxy.mu.Lock()
				proxy.stall = false
				proxy.mu.Unlock()
				if !t1.IsZero() {
					rec.ElapsedMs = int(t1.Sub(t0) / time.Millisecond)
				}
				rec.Obs = C10Obs{Status: r.Status, Heights: r.Heights, Spans: [][]int{}}
				if r.Bad {
					rec.Obs.Status = "bad"
				}
				proxy.mu.Lock()
				for _, sp := range proxy.spans {
					rec.Obs.Spans = append(rec.Obs.Spans, []int{toModel(sp[0]), toModel(sp[1])})
				}
				proxy.mu.Unlock()
				rec.Reads = rs.Reads
				tw.Put(rec)
				res := mbt.Result{ID: id, Key: mbt.J(in), NonTriv: r.Status != "ok", Verdict: "ok"}
				want := mbt.Map(c, "predicted")
				if rec.Stalled {
					// no model prediction for a stalled store: judged by the time clause only
				} else if r.Status != mbt.Str(want, "status") || mbt.J(r.Heights) != mbt.J(mbt.Ints(want["heights"])) || mbt.J(rec.Obs.Spans) != mbt.J(normSpans(want["spans"])) {
					res.Verdict = "drift"
					res.Detail = fmt.Sprintf("in=%s observed %s, model %s", mbt.J(in), mbt.J(rec.Obs), mbt.J(want))
				}
				rw.Put(res)
			}
			_ = srv.Stop(bg)
			_ = st.Stop(bg)
			_ = net.Close()
			synctest.Wait()
		})
	}
}

func normSpans(v any) [][]int {
	out := [][]int{}
	l, _ := v.([]any)
	for _, x := range l {
		out = append(out, mbt.Ints(x))
	}
	return out
}
