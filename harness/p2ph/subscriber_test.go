package p2ph

import (
	"bytes"
	"context"
	"crypto/sha256"
	"errors"
	"fmt"
	"sort"
	"sync"
	"testing"
	"testing/synctest"
	"time"

	header "github.com/celestiaorg/go-header"
	"github.com/celestiaorg/go-header/p2p"
	pubsub "github.com/libp2p/go-libp2p-pubsub"
	pubsub_pb "github.com/libp2p/go-libp2p-pubsub/pb"
	libhost "github.com/libp2p/go-libp2p/core/host"
	"github.com/libp2p/go-libp2p/core/peer"
	"github.com/libp2p/go-libp2p/core/protocol"
	mocknet "github.com/libp2p/go-libp2p/p2p/net/mock"

	"verifharness/mbt"
	"verifharness/vh"
)

type C11Obs struct {
	Verdict        string `json:"verdict"` // accept | ignore | reject | none
	Delivered      bool   `json:"delivered"`
	DeliveredRight bool   `json:"deliveredRight"`
	Relayed        bool   `json:"relayed"`
	Crashed        bool   `json:"crashed"`
	Reason         string `json:"reason,omitempty"`
	// verdict once the node has shut down (the validation context of a message that waits for a verifier ends then)
	Final string `json:"final"`
}

type C11Rec struct {
	Tr  int            `json:"tr"`
	In  map[string]any `json:"in"`
	Obs C11Obs         `json:"obs"`
}

// tracer records validation outcomes per message id on the node under test.
type tracer struct {
	mu      sync.Mutex
	verdict map[string]string
	reason  map[string]string
	mesh    map[peer.ID]bool // peers in the node's mesh of the topic
}

func msgID(m *pubsub_pb.Message) string {
	h := sha256.Sum256(m.Data)
	return string(h[:])
}

func (t *tracer) set(m *pubsub.Message, v, reason string) {
	t.mu.Lock()
	defer t.mu.Unlock()
	id := msgID(m.Message)
	t.verdict[id] = v
	t.reason[id] = reason
}

func (t *tracer) OnNewOutboundStream(peer.ID, protocol.ID) {}
func (t *tracer) OnClosedOutboundStream(peer.ID)           {}
func (t *tracer) Join(string)                              {}
func (t *tracer) Leave(string)                             {}
func (t *tracer) Graft(p peer.ID, _ string) {
	t.mu.Lock()
	defer t.mu.Unlock()
	if t.mesh == nil {
		t.mesh = map[peer.ID]bool{}
	}
	t.mesh[p] = true
}
func (t *tracer) Prune(p peer.ID, _ string) {
	t.mu.Lock()
	defer t.mu.Unlock()
	delete(t.mesh, p)
}
func (t *tracer) ValidateMessage(*pubsub.Message)          {}
func (t *tracer) DeliverMessage(m *pubsub.Message)         { t.set(m, "accept", "") }
func (t *tracer) RejectMessage(m *pubsub.Message, reason string) {
	switch reason {
	case pubsub.RejectValidationIgnored:
		t.set(m, "ignore", reason)
	case pubsub.RejectValidationFailed:
		t.set(m, "reject", reason)
	default:
		t.set(m, "other:"+reason, reason)
	}
}
func (t *tracer) DuplicateMessage(*pubsub.Message)     {}
func (t *tracer) ThrottlePeer(peer.ID)                 {}
func (t *tracer) RecvRPC(*pubsub.RPC)                  {}
func (t *tracer) SendRPC(*pubsub.RPC, peer.ID)         {}
func (t *tracer) DropRPC(*pubsub.RPC, peer.ID)         {}
func (t *tracer) UndeliverableMessage(*pubsub.Message) {}

func verifierErr(kind string) error {
	switch kind {
	case "nil":
		return nil
	case "soft":
		return &header.VerifyError{Reason: vh.ErrType, SoftFailure: true}
	case "wrapSoft":
		return fmt.Errorf("wrapped: %w", &header.VerifyError{Reason: vh.ErrType, SoftFailure: true})
	case "hard":
		return &header.VerifyError{Reason: vh.ErrType}
	case "wrapHard":
		return fmt.Errorf("wrapped: %w", &header.VerifyError{Reason: vh.ErrType})
	case "plain":
		return errors.New("plain error")
	}
	return errors.New("unknown")
}

func lineNet(t *testing.T) (mocknet.Mocknet, []libhost.Host) {
	net := mocknet.New()
	var hosts []libhost.Host
	for i := 0; i < 3; i++ {
		h, err := net.GenPeer()
		if err != nil {
			t.Fatal(err)
		}
		hosts = append(hosts, h)
	}
	if err := net.LinkAll(); err != nil {
		t.Fatal(err)
	}
	// publisher(0) -- subject(1) -- downstream(2)
	if _, err := net.ConnectPeers(hosts[0].ID(), hosts[1].ID()); err != nil {
		t.Fatal(err)
	}
	if _, err := net.ConnectPeers(hosts[1].ID(), hosts[2].ID()); err != nil {
		t.Fatal(err)
	}
	return net, hosts
}

func runSubscriberGroup(t *testing.T, group []map[string]any, withVerifier, metrics bool, tw, rw *mbt.Writer) {
	// in the metrics group the verifier is registered BEFORE the Subscriber is started (a Syncer started first does that)
	verifierFirst := withVerifier && metrics
	synctest.Test(t, func(t *testing.T) {
		ctx, cancel := context.WithCancel(context.Background())
		net, hosts := lineNet(t)
		tr := &tracer{verdict: map[string]string{}, reason: map[string]string{}}
		idFn := func(m *pubsub_pb.Message) string { return msgID(m) }
		mk := func(h libhost.Host, opts ...pubsub.Option) *pubsub.PubSub {
			opts = append(opts, pubsub.WithMessageSignaturePolicy(pubsub.StrictNoSign), pubsub.WithMessageIdFn(idFn))
			ps, err := pubsub.NewGossipSub(ctx, h, opts...)
			if err != nil {
				t.Fatal(err)
			}
			return ps
		}
		psP := mk(hosts[0])
		psS := mk(hosts[1], pubsub.WithRawTracer(tr))
		psD := mk(hosts[2])
		topicID := p2p.PubsubTopicID(networkID)
		sopts := []p2p.SubscriberOption{p2p.WithSubscriberNetworkID(networkID)}
		if metrics {
			sopts = append(sopts, p2p.WithSubscriberMetrics()) // replay-only dimension: the bookkeeping around a verdict must not change it
		}
		sub, err := p2p.NewSubscriber[*vh.Header](psS, idFn, sopts...)
		if err != nil {
			t.Fatal(err)
		}
		var curKind string
		var crashed bool
		stuck := 0 // local Broadcasts that did not return
		if !verifierFirst {
			if err := sub.Start(ctx); err != nil {
				t.Fatal(err)
			}
		}
		if withVerifier {
			_ = sub.SetVerifier(func(ctx context.Context, h *vh.Header) error {
				_ = h.Hash() // as the Syncer's verifier does (it logs the hash): whatever a header memoises is computed here
				if curKind == "panic" {
					panic("scripted verifier panic")
				}
				return verifierErr(curKind)
			})
		}
		if withVerifier {
			// a second registration is refused, and the refused verifier (which would reject everything) is never consulted
			if err := sub.SetVerifier(func(context.Context, *vh.Header) error {
				return errors.New("a verifier whose registration was refused has been consulted")
			}); err == nil {
				t.Fatal("harness: a second SetVerifier was accepted")
			}
		}
		if verifierFirst {
			if err := sub.Start(ctx); err != nil {
				t.Fatal(err)
			}
		}
		subscription, err := sub.Subscribe()
		if err != nil {
			t.Fatal(err)
		}
		topicP, err := psP.Join(topicID)
		if err != nil {
			t.Fatal(err)
		}
		// the publisher also subscribes so that it is part of the mesh (no validator on it)
		subP, _ := topicP.Subscribe()
		_ = subP
		topicD, err := psD.Join(topicID)
		if err != nil {
			t.Fatal(err)
		}
		subD, err := topicD.Subscribe()
		if err != nil {
			t.Fatal(err)
		}
		time.Sleep(5 * time.Second) // heartbeats: mesh formation
		synctest.Wait()
		// the scenario starts from a formed mesh (publisher and downstream both grafted on the node under test, the
		// publisher knows the node's subscription); give the heartbeats more virtual time if that is not the case yet
		formed := func() bool {
			tr.mu.Lock()
			defer tr.mu.Unlock()
			return tr.mesh[hosts[0].ID()] && tr.mesh[hosts[2].ID()] && len(topicP.ListPeers()) >= 1
		}
		for k := 0; k < 120 && !formed(); k++ {
			time.Sleep(time.Second)
			synctest.Wait()
		}
		if !formed() {
			t.Fatal("harness: gossipsub mesh did not form")
		}
		var dmu sync.Mutex
		relayed := map[string]bool{}
		go func() {
			for {
				m, err := subD.Next(ctx)
				if err != nil {
					return
				}
				dmu.Lock()
				relayed[msgID(m.Message)] = true
				dmu.Unlock()
			}
		}()
		chain := vh.NewChain(networkID, 1, len(group)+5, time.Now().Add(-time.Hour), time.Second, 0)
		var recs []C11Rec
		var mids []string
		again := 0
		for gi, c := range group {
			in := mbt.Map(c, "in")
			id := mbt.Int(c, "id")
			curKind = mbt.Str(in, "verifier")
			payload := mbt.Str(in, "payload")
			hdr := chain.At(uint64(gi + 2)).Clone()
			var data []byte
			switch payload {
			case "valid", "local":
			case "invalid", "localInvalid":
				hdr.Invalid = true
				if mbt.Bool(in, "softErr") { // replay-only: the header type reports its own failure as a soft VerifyError
					hdr.InvalidSoft = true
				}
			case "decodepanic":
				hdr.DecodePanic = true
			}
			data, _ = hdr.MarshalBinary()
			if mbt.Bool(in, "again") {
				// the very header that was accepted a moment ago arrives once more in a distinct message (same header, other
				// bytes: trailing white space; the message id is the hash of the bytes) — this time the verifier refuses it,
				// as the Syncer's does with a header it knows already.  The first message is published here (not a judged row).
				again++
				curKind = "nil"
				_ = topicP.Publish(ctx, data)
				time.Sleep(3 * time.Second)
				synctest.Wait()
				pctx, pcancel := context.WithTimeout(ctx, time.Second)
				_, _ = subscription.NextHeader(pctx) // (taken out of the Subscription: the judged message is the next one)
				pcancel()
				curKind = mbt.Str(in, "verifier")
				data = append(append([]byte{}, data...), bytes.Repeat([]byte(" "), again)...)
			}
			switch payload {
			case "undecodable":
				data = []byte(fmt.Sprintf("\x00\x01garbage-%d{{{", id))
				if mbt.Bool(in, "softErr") { // replay-only: bytes that the header type refuses to decode with a soft VerifyError
					bad := chain.At(uint64(gi + 2)).Clone()
					bad.DecodeSoft = true
					data, _ = bad.MarshalBinary()
				}
			case "empty":
				data = []byte{}
			}
			obs := C11Obs{Verdict: "none"}
			func() {
				defer func() {
					if r := recover(); r != nil {
						obs.Crashed = true
						crashed = true
					}
				}()
				if payload == "local" || payload == "localInvalid" {
					// (gossipsub validates a local message under its own context: a Broadcast that waits for a verifier that
					// is never registered returns only when the node shuts down — it must not take the driver with it)
					bdone := make(chan error, 1)
					go func() {
						bctx, bcancel := context.WithTimeout(ctx, 5*time.Second)
						defer bcancel()
						bdone <- sub.Broadcast(bctx, hdr)
					}()
					var err error
					select {
					case err = <-bdone:
					case <-time.After(30 * time.Second):
						obs.Verdict, obs.Reason = "none", "Broadcast did not return within 30 s"
						stuck++
						return
					}
					if err == nil {
						obs.Verdict = "accept"
					} else if errors.Is(err, pubsub.ValidationError{Reason: pubsub.RejectValidationIgnored}) || err.Error() == pubsub.RejectValidationIgnored {
						obs.Verdict = "ignore"
					} else {
						obs.Verdict = "reject"
					}
					obs.Reason = fmt.Sprint(err)
				} else {
					_ = topicP.Publish(ctx, data)
				}
			}()
			time.Sleep(3 * time.Second)
			synctest.Wait()
			mid := string(func() []byte { h := sha256.Sum256(data); return h[:] }())
			tr.mu.Lock()
			if v, ok := tr.verdict[mid]; ok && payload != "local" && payload != "localInvalid" {
				obs.Verdict, obs.Reason = v, tr.reason[mid]
			}
			tr.mu.Unlock()
			// delivery to the local Subscription
			nctx, ncancel := context.WithTimeout(ctx, time.Second)
			got, err := subscription.NextHeader(nctx)
			ncancel()
			if err == nil {
				obs.Delivered = true
				obs.DeliveredRight = got != nil && got.Hash().String() == hdr.Hash().String() && got.Height() == hdr.Height() &&
					got.ChainID() == hdr.ChainID() && got.Time().Equal(hdr.Time()) && got.Clone().Hash().String() == hdr.Hash().String()
			}
			dmu.Lock()
			obs.Relayed = relayed[mid]
			dmu.Unlock()
			obs.Crashed = obs.Crashed || crashed
			obs.Final = obs.Verdict
			recs = append(recs, C11Rec{Tr: id, In: in, Obs: obs})
			mids = append(mids, mid)
			res := mbt.Result{ID: id, Key: mbt.J(in), NonTriv: obs.Verdict != "accept", Verdict: "ok"}
			want := mbt.Map(c, "predicted")
			if obs.Verdict != mbt.Str(want, "verdict") || obs.Delivered != mbt.Bool(want, "delivered") || obs.Relayed != mbt.Bool(want, "relayed") {
				res.Verdict, res.Detail = "drift", fmt.Sprintf("in=%s observed %s, model %s", mbt.J(in), mbt.J(obs), mbt.J(want))
			}
			rw.Put(res)
		}
		subscription.Cancel()
		// (Stop closes the topic, which waits for a local Broadcast that is still being validated: if one is stuck waiting
		// for a verifier, the node's context has to end first)
		if stuck > 0 {
			cancel()
			time.Sleep(time.Second)
			synctest.Wait()
		}
		_ = sub.Stop(ctx)
		cancel()
		_ = net.Close()
		time.Sleep(time.Second)
		synctest.Wait()
		tr.mu.Lock()
		for i := range recs {
			if v, ok := tr.verdict[mids[i]]; ok && recs[i].Obs.Verdict == "none" {
				recs[i].Obs.Final = v
			}
		}
		tr.mu.Unlock()
		for _, r := range recs {
			tw.Put(r)
		}
	})
}

func TestSubscriber(t *testing.T) {
	cases, rw, tw := openIO(t)
	defer rw.Close()
	defer tw.Close()
	var with, withM, without []map[string]any
	for _, c := range cases {
		switch in := mbt.Map(c, "in"); {
		case mbt.Str(in, "verifier") == "notset":
			without = append(without, c)
		case mbt.Bool(in, "metrics"):
			withM = append(withM, c)
		default:
			with = append(with, c)
		}
	}
	if len(with) > 0 {
		// in this group the accepted messages come last: every kind of refused message has gone through the same
		// Subscriber before them (in the metrics group they come in table order)
		// and right before them the well-formed messages that the verifier refused
		rank := func(c map[string]any) int {
			switch {
			case mbt.Bool(mbt.Map(c, "in"), "again"):
				return 3 // the header of an accepted message once more, in a distinct message, now refused by the verifier
			case mbt.Str(mbt.Map(c, "predicted"), "verdict") == "accept":
				return 2
			case mbt.Str(mbt.Map(c, "in"), "payload") == "valid":
				return 1
			}
			return 0
		}
		sort.SliceStable(with, func(i, j int) bool { return rank(with[i]) < rank(with[j]) })
		runSubscriberGroup(t, with, true, false, tw, rw)
	}
	if len(withM) > 0 {
		runSubscriberGroup(t, withM, true, true, tw, rw)
	}
	if len(without) > 0 {
		runSubscriberGroup(t, without, false, false, tw, rw)
	}
}

// TestSubscriberLate: K valid messages arrive while no verifier is registered — their validators park inside
// verifyMessage — then SetVerifier registers a verifier that returns nil.  Every one of them is judged by that verifier:
// accepted, delivered, relayed (SubscriberReg.tla: the field is published before the waiting validators are released).
// Built with the race detector by the driver: its happens-before analysis of exactly this hand-over is the oracle for
// PublishedBeforeRelease, whatever order the goroutines happened to run in.
func TestSubscriberLate(t *testing.T) {
	_, rw, tw := openIO(t)
	defer rw.Close()
	defer tw.Close()
	const K = 24 // below the 32-message buffer of a pubsub subscription: a burst must not be dropped on the observing side
	for round := 0; round < 3; round++ {
		var recs []C11Rec
		synctest.Test(t, func(t *testing.T) {
			ctx, cancel := context.WithCancel(context.Background())
			net, hosts := lineNet(t)
			tr := &tracer{verdict: map[string]string{}, reason: map[string]string{}}
			idFn := func(m *pubsub_pb.Message) string { return msgID(m) }
			mk := func(h libhost.Host, opts ...pubsub.Option) *pubsub.PubSub {
				opts = append(opts, pubsub.WithMessageSignaturePolicy(pubsub.StrictNoSign), pubsub.WithMessageIdFn(idFn))
				ps, err := pubsub.NewGossipSub(ctx, h, opts...)
				if err != nil {
					t.Fatal(err)
				}
				return ps
			}
			psP := mk(hosts[0])
			psS := mk(hosts[1], pubsub.WithRawTracer(tr))
			psD := mk(hosts[2])
			topicID := p2p.PubsubTopicID(networkID)
			sub, err := p2p.NewSubscriber[*vh.Header](psS, idFn, p2p.WithSubscriberNetworkID(networkID))
			if err != nil {
				t.Fatal(err)
			}
			if err := sub.Start(ctx); err != nil {
				t.Fatal(err)
			}
			subscription, err := sub.Subscribe()
			if err != nil {
				t.Fatal(err)
			}
			topicP, err := psP.Join(topicID)
			if err != nil {
				t.Fatal(err)
			}
			subP, _ := topicP.Subscribe()
			_ = subP
			topicD, err := psD.Join(topicID)
			if err != nil {
				t.Fatal(err)
			}
			subD, err := topicD.Subscribe()
			if err != nil {
				t.Fatal(err)
			}
			time.Sleep(5 * time.Second)
			synctest.Wait()
			formed := func() bool {
				tr.mu.Lock()
				defer tr.mu.Unlock()
				return tr.mesh[hosts[0].ID()] && tr.mesh[hosts[2].ID()] && len(topicP.ListPeers()) >= 1
			}
			for k := 0; k < 120 && !formed(); k++ {
				time.Sleep(time.Second)
				synctest.Wait()
			}
			if !formed() {
				t.Fatal("harness: gossipsub mesh did not form")
			}
			var dmu sync.Mutex
			relayed := map[string]bool{}
			go func() {
				for {
					m, err := subD.Next(ctx)
					if err != nil {
						return
					}
					dmu.Lock()
					relayed[msgID(m.Message)] = true
					dmu.Unlock()
				}
			}()
			chain := vh.NewChain(networkID, 1, K+5, time.Now().Add(-time.Hour), time.Second, 0)
			var mids []string
			var hdrs []*vh.Header
			for i := 0; i < K; i++ {
				hdr := chain.At(uint64(i + 2)).Clone()
				data, _ := hdr.MarshalBinary()
				_ = topicP.Publish(ctx, data)
				s := sha256.Sum256(data)
				mids = append(mids, string(s[:]))
				hdrs = append(hdrs, hdr)
			}
			synctest.Wait() // every validator is parked on the semaphore
			var gmu sync.Mutex
			got := map[string]*vh.Header{}
			go func() {
				for {
					h, err := subscription.NextHeader(ctx)
					if err != nil {
						return
					}
					gmu.Lock()
					got[h.Hash().String()] = h
					gmu.Unlock()
				}
			}()
			_ = sub.SetVerifier(func(ctx context.Context, h *vh.Header) error {
				_ = h.Hash()
				return nil
			})
			synctest.Wait()
			time.Sleep(3 * time.Second)
			synctest.Wait()
			gmu.Lock()
			defer gmu.Unlock()
			for i := 0; i < K; i++ {
				obs := C11Obs{Verdict: "none"}
				tr.mu.Lock()
				if v, ok := tr.verdict[mids[i]]; ok {
					obs.Verdict, obs.Reason = v, tr.reason[mids[i]]
				}
				tr.mu.Unlock()
				if h := got[hdrs[i].Hash().String()]; h != nil {
					obs.Delivered = true
					obs.DeliveredRight = h.Height() == hdrs[i].Height() && h.Clone().Hash().String() == hdrs[i].Hash().String()
				}
				dmu.Lock()
				obs.Relayed = relayed[mids[i]]
				dmu.Unlock()
				obs.Final = obs.Verdict
				recs = append(recs, C11Rec{Tr: 900000 + round*1000 + i, In: map[string]any{"payload": "valid", "verifier": "nil", "late": true}, Obs: obs})
			}
			subscription.Cancel()
			_ = sub.Stop(ctx)
			cancel()
			_ = net.Close()
			time.Sleep(time.Second)
			synctest.Wait()
		})
		for _, r := range recs {
			tw.Put(r)
			rw.Put(mbt.Result{ID: r.Tr, Key: fmt.Sprint(r.Tr), NonTriv: true, Verdict: "ok"})
		}
	}
}
