package p2ph

import (
	"context"
	"sync"
	"testing"
	"time"

	"github.com/celestiaorg/go-header/p2p"
	"github.com/celestiaorg/go-header/store"
	p2p_pb "github.com/celestiaorg/go-header/p2p/pb"
	"github.com/celestiaorg/go-libp2p-messenger/serde"
	ds "github.com/ipfs/go-datastore"
	dssync "github.com/ipfs/go-datastore/sync"
	libhost "github.com/libp2p/go-libp2p/core/host"
	"github.com/libp2p/go-libp2p/core/network"
	"github.com/libp2p/go-libp2p/core/peer"
	"github.com/libp2p/go-libp2p/p2p/net/conngater"

	"verifharness/vh"
)

const reqTimeout = 8 * time.Second

// noChainPin makes the next newExchange build a client without WithChainID.
var noChainPin bool

// clientMetrics makes the next newExchange build a client with metrics enabled (the bookkeeping around a request
// must not change its outcome).
var clientMetrics bool

// item is one thing a scripted peer writes on the stream.
type item struct {
	status p2p_pb.StatusCode
	body   []byte
	raw    []byte // written verbatim instead of a delimited response
}

// plan is a scripted answer.
type plan struct {
	items []item
	end   string        // close | reset | hold (hold for `delay`, then reset)
	delay time.Duration // before writing anything (virtual)
}

type reqLog struct {
	Origin uint64
	Hash   []byte
	Amount uint64
	N      int // n-th request seen by this peer
}

// speer is a scripted libp2p peer speaking the header-ex protocol.
type speer struct {
	h      libhost.Host
	mu     sync.Mutex
	reqs   []reqLog
	script func(r reqLog) plan
	gate   chan struct{} // when non-nil every answer waits for one token
	gated  bool
}

func newSpeer(h libhost.Host, gated bool, script func(r reqLog) plan) *speer {
	p := &speer{h: h, script: script, gated: gated, gate: make(chan struct{}, 64)}
	h.SetStreamHandler(exProto, p.handle)
	return p
}

func (p *speer) release() { p.gate <- struct{}{} }

func (p *speer) handle(s network.Stream) {
	req := new(p2p_pb.HeaderRequest)
	if _, err := serde.Read(s, req); err != nil {
		_ = s.Reset()
		return
	}
	p.mu.Lock()
	r := reqLog{Origin: req.GetOrigin(), Hash: req.GetHash(), Amount: req.Amount, N: len(p.reqs)}
	p.reqs = append(p.reqs, r)
	p.mu.Unlock()
	pl := p.script(r)
	if p.gated {
		select {
		case <-p.gate:
		case <-time.After(reqTimeout + 2*time.Second):
			_ = s.Reset()
			return
		}
	}
	if pl.delay > 0 {
		time.Sleep(pl.delay)
	}
	if pl.end == "hold" {
		time.Sleep(reqTimeout + time.Second)
		_ = s.Reset()
		return
	}
	for _, it := range pl.items {
		if it.raw != nil {
			if _, err := s.Write(it.raw); err != nil {
				_ = s.Reset()
				return
			}
			continue
		}
		if _, err := serde.Write(s, &p2p_pb.HeaderResponse{Body: it.body, StatusCode: it.status}); err != nil {
			_ = s.Reset()
			return
		}
	}
	if pl.end == "stall" { // part of the answer was sent, then the peer goes silent past the request timeout
		time.Sleep(reqTimeout + time.Second)
		_ = s.Reset()
		return
	}
	if pl.end == "reset" {
		_ = s.Reset()
		return
	}
	_ = s.Close()
}

func (p *speer) requests() []reqLog {
	p.mu.Lock()
	defer p.mu.Unlock()
	return append([]reqLog(nil), p.reqs...)
}

func okItem(h *vh.Header) item {
	b, _ := h.MarshalBinary()
	return item{status: p2p_pb.StatusCode_OK, body: b}
}

func okItems(hs []*vh.Header) []item {
	out := make([]item, 0, len(hs))
	for _, h := range hs {
		out = append(out, okItem(h))
	}
	return out
}

func notFoundPlan() plan {
	return plan{items: []item{{status: p2p_pb.StatusCode_NOT_FOUND}}, end: "close"}
}

// newExchange builds and starts a real client on host with the given trusted peers.
func newExchange(t *testing.T, host libhost.Host, trusted []peer.ID, chunk uint64) *p2p.Exchange[*vh.Header] {
	gater, err := conngater.NewBasicConnectionGater(dssync.MutexWrap(ds.NewMapDatastore()))
	if err != nil {
		t.Fatal(err)
	}
	opts := []p2p.Option[p2p.ClientParameters]{
		p2p.WithNetworkID[p2p.ClientParameters](networkID),
		p2p.WithRequestTimeout[p2p.ClientParameters](reqTimeout),
	}
	if !noChainPin {
		opts = append(opts, p2p.WithChainID(networkID))
	}
	if clientMetrics {
		opts = append(opts, p2p.WithMetrics[p2p.ClientParameters]())
	}
	if chunk > 0 {
		opts = append(opts, p2p.WithMaxHeadersPerRangeRequest(chunk))
	}
	ex, err := p2p.NewExchange[*vh.Header](host, trusted, gater, opts...)
	if err != nil {
		t.Fatal(err)
	}
	if err := ex.Start(context.Background()); err != nil {
		t.Fatal(err)
	}
	return ex
}

func newServer(h libhost.Host, st *store.Store[*vh.Header]) (*p2p.ExchangeServer[*vh.Header], error) {
	srv, err := p2p.NewExchangeServer[*vh.Header](h, st, p2p.WithNetworkID[p2p.ServerParameters](networkID))
	if err != nil {
		return nil, err
	}
	return srv, srv.Start(context.Background())
}
