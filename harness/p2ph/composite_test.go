package p2ph

// TestComposite: a real sync.Syncer over a real Store whose getter is the real p2p.Exchange, talking to scripted
// peers on mocknet.  It closes the gap between the Syncer checks (scripted getter) and the Exchange checks
// (scripted peers): C19's "a stale subjective head triggers exactly one head request verified against it" is a
// contract between the two packages — the Syncer adopts an error-free answer of the Exchange without verifying it
// again, so the Exchange must have verified it in every mode (tracked peers, or trusted peers when the tracker is empty).

import (
	"context"
	"errors"
	"sync"
	"testing"
	"testing/synctest"
	"time"

	header "github.com/celestiaorg/go-header"
	hsync "github.com/celestiaorg/go-header/sync"
	"github.com/libp2p/go-libp2p/core/peer"

	"verifharness/mbt"
	"verifharness/vh"
)

type CompRec struct {
	Tr       int    `json:"tr"`
	Answer   string `json:"answer"`   // what the peer reports as its head: newer | forgedNext | forgedFar | older | same | notfound
	Fallback bool   `json:"fallback"` // the peer tracker was empty when Head() was called
	Subj     int    `json:"subj"`     // subjective head before the call
	Ret      int    `json:"ret"`      // height returned by Syncer.Head()
	RetCanon bool   `json:"retCanon"` // ... and it is the canonical header of that height
	Err      bool   `json:"err"`
	HeadReqs int    `json:"headReqs"` // head requests the peer saw during the call
	Again    int    `json:"again"`    // Head() right afterwards (no new information)
	AgainCanon bool `json:"againCanon"`
	Stored   bool   `json:"stored"`   // the forged header is readable from the store
	Panicked bool   `json:"panicked"`
}

type compSub struct {
	mu sync.Mutex
	v  func(context.Context, *vh.Header) error
}

func (s *compSub) SetVerifier(f func(context.Context, *vh.Header) error) error {
	s.mu.Lock()
	s.v = f
	s.mu.Unlock()
	return nil
}
func (s *compSub) Subscribe() (header.Subscription[*vh.Header], error) { return compSubscription{}, nil }

type compSubscription struct{}

func (compSubscription) NextHeader(ctx context.Context) (*vh.Header, error) {
	<-ctx.Done()
	return nil, ctx.Err()
}
func (compSubscription) Cancel() {}

func TestComposite(t *testing.T) {
	_, rw, tw := openIO(t)
	defer rw.Close()
	defer tw.Close()
	id := 700000
	for _, answer := range []string{"newer", "forgedNext", "forgedFar", "older", "same", "notfound"} {
		for _, fallback := range []bool{false, true} {
			id++
			rec := CompRec{Tr: id, Answer: answer, Fallback: fallback}
			synctest.Test(t, func(t *testing.T) {
				bg := context.Background()
				const subj = 5
				// header times: one per hour, the subjective head is 4 h old when Head() is called (stale for blockTime 1 h, not expired)
				chain := vh.NewChain(networkID, 1, 12, time.Now().Add(-time.Duration(subj)*time.Hour), time.Hour, 0)
				st, _ := newStore(t, chain, 1, subj)
				net, hosts := newNet(t, 2)
				var pmu sync.Mutex
				headReqs := 0
				forgedNext, forgedFar := chain.Forge(subj+1, 41), chain.Forge(subj+3, 42)
				newSpeer(hosts[1], false, func(r reqLog) plan {
					if len(r.Hash) == 0 && r.Origin == 0 { // head request
						pmu.Lock()
						headReqs++
						pmu.Unlock()
						switch answer {
						case "newer":
							return plan{items: []item{okItem(chain.At(subj + 3))}, end: "close"}
						case "forgedNext":
							return plan{items: []item{okItem(forgedNext)}, end: "close"}
						case "forgedFar":
							return plan{items: []item{okItem(forgedFar)}, end: "close"}
						case "older":
							return plan{items: []item{okItem(chain.At(subj - 2))}, end: "close"}
						case "same":
							return plan{items: []item{okItem(chain.At(subj))}, end: "close"}
						}
						return notFoundPlan()
					}
					pl, _, _ := behave("serve", r, chain, subj+3, 0, 64)
					return pl
				})
				ex := newExchange(t, hosts[0], []peer.ID{hosts[1].ID()}, 0)
				sy, err := hsync.NewSyncer[*vh.Header](ex, st, &compSub{}, hsync.WithBlockTime(time.Hour), hsync.WithTrustingPeriod(48*time.Hour))
				if err != nil {
					t.Fatal(err)
				}
				time.Sleep(time.Second)
				synctest.Wait()
				if fallback {
					_ = net.DisconnectPeers(hosts[0].ID(), hosts[1].ID())
					synctest.Wait()
				}
				time.Sleep(4 * time.Hour) // the stored head is no longer recent
				synctest.Wait()
				if hd, err := st.Head(bg); err == nil {
					rec.Subj = int(hd.Height())
				}
				pmu.Lock()
				headReqs = 0
				pmu.Unlock()
				func() {
					defer func() {
						if r := recover(); r != nil {
							rec.Panicked = true
						}
					}()
					ctx, cancel := context.WithTimeout(bg, time.Minute)
					defer cancel()
					hd, err := sy.Head(ctx)
					rec.Err = err != nil
					if hd != nil {
						rec.Ret, rec.RetCanon = int(hd.Height()), chain.IsCanon(hd)
					}
				}()
				synctest.Wait()
				pmu.Lock()
				rec.HeadReqs = headReqs
				pmu.Unlock()
				func() {
					defer func() { _ = recover() }()
					ctx, cancel := context.WithTimeout(bg, time.Minute)
					defer cancel()
					if hd, err := sy.Head(ctx); err == nil && hd != nil {
						rec.Again, rec.AgainCanon = int(hd.Height()), chain.IsCanon(hd)
					}
				}()
				for _, f := range []*vh.Header{forgedNext, forgedFar} {
					if _, err := st.Get(bg, f.Hash()); err == nil {
						rec.Stored = true
					}
				}
				func() {
					defer func() { _ = recover() }()
					_ = sy.Stop(bg)
				}()
				_ = ex.Stop(bg)
				_ = st.Stop(bg)
				_ = net.Close()
				time.Sleep(time.Minute)
				synctest.Wait()
			})
			tw.Put(rec)
			rw.Put(mbt.Result{ID: id, Key: rec.Answer + mbt.J(rec.Fallback), NonTriv: true, Verdict: "ok"})
		}
	}
}

var _ = errors.New
