package p2ph

// TestTracker replays behaviours of spec/PeerTracker.tla (export configuration: every network step is followed by
// the delivery of its event, a tick by a gc cycle) on a real Exchange over a mocknet whose links exist but whose
// connections are made and broken by the behaviour.  After the churn a real GetRangeByHeight is issued: with a
// connected, unblocked, capable peer it must return the full range (C18); Head() must be answered by the trusted
// peer when it is connected (C09 stands on the same tracker).
//
// Observations come from the verif accessors of package p2p (tracker maps) and from libp2p itself
// (Connectedness); differences with the model's prediction are MODEL-DRIFT, the clauses of PeerTrackerTrace.tla
// are the property layer.

import (
	"context"
	"sort"
	"testing"
	"testing/synctest"
	"time"

	"github.com/celestiaorg/go-header/p2p"
	libhost "github.com/libp2p/go-libp2p/core/host"
	"github.com/libp2p/go-libp2p/core/network"
	"github.com/libp2p/go-libp2p/core/peer"
	mocknet "github.com/libp2p/go-libp2p/p2p/net/mock"

	"verifharness/mbt"
	"verifharness/vh"
)

type TrackerEv struct {
	Tr      int     `json:"tr"`
	I       int     `json:"i"`
	Op      string  `json:"op"`
	P       int     `json:"p"`
	Tracked []int   `json:"tracked"`
	Disc    []int   `json:"disc"`
	Score   []int   `json:"score"`   // per peer: 0 no record, 1 default, 2 earned
	Conn    []int   `json:"conn"`    // peers libp2p reports as Connected
	Blocked []int   `json:"blocked"` // peers blocked by the harness (as a session would)
	Session []int   `json:"session"` // what a new session would use
	HeadP   []int   `json:"headp"`   // what Head() would ask besides the trusted peers (getPeers(2))
	// final request
	RangeOK  bool   `json:"rangeOK"`
	Heights  []int  `json:"heights"`
	Hung     bool   `json:"hung"`
	Panicked bool   `json:"panicked"`
	Err      string `json:"err,omitempty"`
}

const tickLen = 45 * time.Minute // maxAwaitingTime is one hour: kept after one tick, pruned by the gc cycle after two

func TestTracker(t *testing.T) {
	cases, rw, tw := openIO(t)
	defer rw.Close()
	defer tw.Close()
	for _, c := range cases {
		id := mbt.Int(c, "id")
		n := mbt.Int(c, "n")
		hist := mbt.List(c, "hist")
		var evs []TrackerEv
		var drift []string
		synctest.Test(t, func(t *testing.T) {
			bg := context.Background()
			chain := vh.NewChain(networkID, 1, 16, time.Now().Add(-time.Hour), time.Second, 0)
			net, err := mocknet.FullMeshLinked(n + 1)
			if err != nil {
				t.Fatal(err)
			}
			hosts := net.Hosts()
			idx := map[peer.ID]int{}
			for i := 1; i <= n; i++ {
				idx[hosts[i].ID()] = i
				newSpeer(hosts[i], false, func(r reqLog) plan {
					pl, _, _ := behave("serve", r, chain, 12, 1, 2)
					return pl
				})
			}
			ex := newExchange(t, hosts[0], nil, 2)
			time.Sleep(time.Second)
			synctest.Wait()
			blocked := map[int]bool{}
			ints := func(m map[peer.ID]float32) []int {
				out := []int{}
				for p := range m {
					out = append(out, idx[p])
				}
				sort.Ints(out)
				return out
			}
			pids := func(ps []peer.ID) []int {
				out := []int{}
				for _, p := range ps {
					out = append(out, idx[p])
				}
				sort.Ints(out)
				return out
			}
			observe := func(ev *TrackerEv) {
				tr, dc := ex.VerifTrackerState()
				ev.Tracked, ev.Disc = ints(tr), ints(dc)
				ev.Score = make([]int, n)
				for _, m := range []map[peer.ID]float32{tr, dc} {
					for p, s := range m {
						v := 2
						if s == 1 {
							v = 1
						}
						ev.Score[idx[p]-1] = v
					}
				}
				ev.Conn = []int{}
				for i := 1; i <= n; i++ {
					if hosts[0].Network().Connectedness(hosts[i].ID()) == network.Connected {
						ev.Conn = append(ev.Conn, i)
					}
				}
				ev.Blocked = []int{}
				for b := range blocked {
					ev.Blocked = append(ev.Blocked, b)
				}
				sort.Ints(ev.Blocked)
				s, h := ex.VerifTrackerPeers(2)
				ev.Session, ev.HeadP = pids(s), pids(h)
				ev.Heights = []int{}
			}
			for i, st := range hist {
				step, _ := st.(map[string]any)
				op := mbt.Map(step, "op")
				name, p := mbt.Str(op, "op"), mbt.Int(op, "p")
				ev := TrackerEv{Tr: id, I: i, Op: name, P: p}
				switch name {
				case "connect":
					if _, err := net.ConnectPeers(hosts[0].ID(), hosts[p].ID()); err != nil {
						ev.Err = err.Error()
					}
				case "disconnect":
					if err := net.DisconnectPeers(hosts[0].ID(), hosts[p].ID()); err != nil {
						ev.Err = err.Error()
					}
				case "earn":
					ex.VerifScorePeer(hosts[p].ID(), 4096, time.Millisecond)
				case "block":
					blocked[p] = true
					ex.VerifBlockPeer(hosts[p].ID())
				case "tick":
					time.Sleep(tickLen)
				}
				synctest.Wait()
				observe(&ev)
				evs = append(evs, ev)
				proj := mbt.Map(step, "proj")
				for _, cmp := range [][3]string{{"tracked", mbt.J(ev.Tracked), mbt.J(mbt.Ints(proj["tracked"]))},
					{"disc", mbt.J(ev.Disc), mbt.J(mbt.Ints(proj["disc"]))}, {"score", mbt.J(ev.Score), mbt.J(mbt.Ints(proj["score"]))}} {
					if cmp[1] != cmp[2] {
						drift = append(drift, "step "+mbt.J(op)+": "+cmp[0]+" observed "+cmp[1]+", model "+cmp[2])
					}
				}
			}
			// the request after the churn
			fin := TrackerEv{Tr: id, I: len(hist), Op: "range"}
			type out struct {
				hs  []*vh.Header
				err error
				p   any
			}
			done := make(chan out, 1)
			go func() {
				var o out
				defer func() {
					if r := recover(); r != nil {
						o.p = r
					}
					done <- o
				}()
				ctx, cancel := context.WithTimeout(bg, 2*time.Minute)
				defer cancel()
				o.hs, o.err = ex.GetRangeByHeight(ctx, chain.At(1), 6)
			}()
			time.Sleep(3 * time.Minute)
			synctest.Wait()
			observe(&fin)
			select {
			case o := <-done:
				fin.Panicked = o.p != nil
				fin.RangeOK = o.err == nil && o.p == nil
				if o.err != nil {
					fin.Err = o.err.Error()
					if len(fin.Err) > 100 {
						fin.Err = fin.Err[:100]
					}
				}
				for _, h := range o.hs {
					if h != nil && chain.IsCanon(h) {
						fin.Heights = append(fin.Heights, int(h.H))
					} else {
						fin.Heights = append(fin.Heights, -1)
					}
				}
			default:
				fin.Hung = true
			}
			evs = append(evs, fin)
			_ = ex.Stop(bg)
			_ = net.Close()
			time.Sleep(time.Minute)
			synctest.Wait()
		})
		for _, e := range evs {
			tw.Put(e)
		}
		r := mbt.Result{ID: id, Key: mbt.J(c["hist"]), NonTriv: len(hist) > 1, Verdict: "ok"}
		if len(drift) > 0 {
			r.Verdict, r.Detail = "drift", drift[0]
		}
		rw.Put(r)
	}
}

var _ libhost.Host
var _ = p2p.DefaultClientParameters
