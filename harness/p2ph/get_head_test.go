package p2ph

import (
	"context"
	"errors"
	"fmt"
	"testing"
	"testing/synctest"
	"time"

	header "github.com/celestiaorg/go-header"
	p2p_pb "github.com/celestiaorg/go-header/p2p/pb"
	"github.com/celestiaorg/go-libp2p-messenger/serde"
	"github.com/libp2p/go-libp2p/core/peer"

	"verifharness/mbt"
	"verifharness/vh"
)

type GetObs struct {
	Hdr string `json:"hdr"`
	Err bool   `json:"err"`
	Msg string `json:"msg,omitempty"`
}

type GetRec struct {
	Tr       int            `json:"tr"`
	In       map[string]any `json:"in"`
	Obs      GetObs         `json:"obs"`
	Panicked bool           `json:"panicked"`
	Hung     bool           `json:"hung"`
}

func getPlan(class string, wanted, other *vh.Header) (plan, bool) {
	wb, _ := wanted.MarshalBinary()
	switch class {
	case "valid":
		return plan{items: []item{okItem(wanted)}, end: "close"}, true
	case "otherHash":
		return plan{items: []item{okItem(other)}, end: "close"}, true
	case "wrongchain":
		h := wanted.Clone()
		h.Chain = "otherchain"
		return plan{items: []item{okItem(h)}, end: "close"}, true
	case "nochain":
		h := wanted.Clone()
		h.Chain = ""
		return plan{items: []item{okItem(h)}, end: "close"}, true
	case "invalid":
		h := wanted.Clone()
		h.Invalid = true
		return plan{items: []item{okItem(h)}, end: "close"}, true
	case "malformed":
		return plan{items: []item{{status: p2p_pb.StatusCode_OK, body: []byte("\x01\x02not-a-header")}}, end: "close"}, true
	case "unknownStatus":
		return plan{items: []item{{status: 7, body: wb}}, end: "close"}, true
	case "notfound":
		return notFoundPlan(), true
	case "empty":
		return plan{end: "close"}, true
	case "truncated":
		full := encodeResp(p2p_pb.StatusCode_OK, wb)
		return plan{items: []item{{raw: full[:len(full)/2]}}, end: "close"}, true
	case "tooMany":
		return plan{items: []item{okItem(wanted), okItem(other)}, end: "close"}, true
	case "hang":
		return plan{end: "hold"}, true
	}
	return plan{}, false // noStream: no handler at all
}

func encodeResp(st p2p_pb.StatusCode, body []byte) []byte {
	var buf bufWriter
	if _, err := serde.Write(&buf, &p2p_pb.HeaderResponse{Body: body, StatusCode: st}); err != nil {
		panic(err)
	}
	return buf.b
}

func groupByPeers(cases []map[string]any) (map[int][]map[string]any, []int) {
	g := map[int][]map[string]any{}
	var ns []int
	for _, c := range cases {
		n := len(mbt.Strs(mbt.Map(c, "in")["ans"]))
		if _, ok := g[n]; !ok {
			ns = append(ns, n)
		}
		g[n] = append(g[n], c)
	}
	return g, ns
}

func TestGet(t *testing.T) {
	cases, rw, tw := openIO(t)
	defer rw.Close()
	defer tw.Close()
	groups, ns := groupByPeers(cases)
	for _, n := range ns {
		synctest.Test(t, func(t *testing.T) {
			bg := context.Background()
			chain := vh.NewChain(networkID, 1, 10, time.Now().Add(-time.Hour), time.Second, 0)
			wanted, other := chain.At(5), chain.At(6)
			// one more connected peer that is NOT trusted and answers every request honestly at once: Get and GetByHeight
			// ask trusted peers only, whatever else is connected
			net, hosts := newNet(t, n+2)
			var trusted []peer.ID
			for i := 0; i < n; i++ {
				trusted = append(trusted, hosts[i+1].ID())
			}
			newSpeer(hosts[n+1], false, func(reqLog) plan { return plan{items: []item{okItem(wanted)}, end: "close"} })
			for _, c := range groups[n] {
				in := mbt.Map(c, "in")
				id := mbt.Int(c, "id")
				classes := mbt.Strs(in["ans"])
				order := mbt.Ints(in["order"])
				rec := GetRec{Tr: id, In: in}
				peers := make([]*speer, n)
				for i, cl := range classes {
					pl, ok := getPlan(cl, wanted, other)
					if ok {
						pl := pl
						peers[i] = newSpeer(hosts[i+1], true, func(reqLog) plan { return pl })
					} else {
						hosts[i+1].RemoveStreamHandler(exProto)
					}
				}
				noChainPin = mbt.Bool(in, "nopin") // replay-only dimension: a client that does not pin a chain id still validates
				ex := newExchange(t, hosts[0], trusted, 0)
				noChainPin = false
				synctest.Wait()
				if mbt.Bool(in, "offline") {
					// replay-only dimension: no trusted peer is connected when the call is made (they are dialled for it)
					for i := 1; i <= n; i++ {
						_ = net.DisconnectPeers(hosts[0].ID(), hosts[i].ID())
					}
					synctest.Wait()
				}
				type out struct {
					h   *vh.Header
					err error
					p   any
				}
				done := make(chan out, 1)
				go func() {
					var o out
					defer func() {
						if r := recover(); r != nil {
							o.p = r
						}
						done <- o
					}()
					// every other row: a caller without a deadline of its own — when no trusted peer answers validly the
					// call fails by itself (request timeouts, resets), it does not wait for the caller to give up
					ctx, cancel := context.WithTimeout(bg, time.Minute)
					if id%2 == 1 {
						ctx, cancel = context.WithTimeout(bg, 10*time.Hour)
					}
					defer cancel()
					if mbt.Str(in, "op") == "Get" {
						o.h, o.err = ex.Get(ctx, wanted.Hash())
					} else {
						o.h, o.err = ex.GetByHeight(ctx, 5)
					}
				}()
				synctest.Wait()
				for _, k := range order {
					if p := peers[k-1]; p != nil && classes[k-1] != "hang" {
						p.release()
						synctest.Wait()
					}
				}
				var o out
				select {
				case o = <-done:
				default:
					time.Sleep(2 * time.Minute) // hanging peers reset after the request timeout
					synctest.Wait()
					select {
					case o = <-done:
					default:
						rec.Hung = true
					}
				}
				rec.Panicked = o.p != nil
				rec.Obs.Err = o.err != nil
				switch {
				case o.h == nil:
					rec.Obs.Hdr = "zero"
				case o.h.Hash().String() == wanted.Hash().String():
					rec.Obs.Hdr = "wanted"
				case o.h.Hash().String() == other.Hash().String():
					rec.Obs.Hdr = "other"
				default:
					rec.Obs.Hdr = fmt.Sprintf("unknown(h=%d chain=%s invalid=%v)", o.h.H, o.h.Chain, o.h.Invalid)
				}
				if o.err != nil {
					rec.Obs.Msg = o.err.Error()
					if len(rec.Obs.Msg) > 120 {
						rec.Obs.Msg = rec.Obs.Msg[:120]
					}
				}
				_ = ex.Stop(bg)
				time.Sleep(time.Minute) // every held stream is reset, every handler goroutine gone
				synctest.Wait()
				tw.Put(rec)
				res := mbt.Result{ID: id, Key: mbt.J(in), NonTriv: rec.Obs.Err, Verdict: "ok"}
				want := mbt.Map(c, "predicted")
				if rec.Obs.Hdr != mbt.Str(want, "hdr") || rec.Obs.Err != mbt.Bool(want, "err") {
					res.Verdict, res.Detail = "drift", fmt.Sprintf("in=%s observed %s, model %s", mbt.J(in), mbt.J(rec.Obs), mbt.J(want))
				}
				rw.Put(res)
			}
			_ = net.Close()
			time.Sleep(time.Minute)
			synctest.Wait()
		})
	}
}

type HeadObs struct {
	ID  string `json:"id"`
	Err string `json:"err"`
	Msg string `json:"msg,omitempty"`
}

type HeadRec struct {
	Tr       int            `json:"tr"`
	In       map[string]any `json:"in"`
	Obs      HeadObs        `json:"obs"`
	Panicked bool           `json:"panicked"`
}

func TestHead(t *testing.T) {
	cases, rw, tw := openIO(t)
	defer rw.Close()
	defer tw.Close()
	groups, ns := groupByPeers(cases)
	for _, n := range ns {
		synctest.Test(t, func(t *testing.T) {
			bg := context.Background()
			chain := vh.NewChain(networkID, 1, 10, time.Now().Add(-time.Hour), time.Second, 0)
			ids := map[string]*vh.Header{"A": chain.At(5), "B": chain.At(7), "S": chain.Forge(8, 1), "H": chain.At(3)}
			net, hosts := newNet(t, n+1)
			var trusted []peer.ID
			for i := 0; i < n; i++ {
				trusted = append(trusted, hosts[i+1].ID())
			}
			for _, c := range groups[n] {
				in := mbt.Map(c, "in")
				id := mbt.Int(c, "id")
				answers := mbt.Strs(in["ans"])
				order := mbt.Ints(in["order"])
				trustedMode := mbt.Bool(in, "trusted")
				rec := HeadRec{Tr: id, In: in}
				peers := make([]*speer, n)
				for i, a := range answers {
					var pl plan
					switch a {
					case "fail":
						pl = notFoundPlan()
					case "hang":
						pl = plan{end: "hold"}
					default:
						pl = plan{items: []item{okItem(ids[a])}, end: "close"}
					}
					pl2 := pl
					peers[i] = newSpeer(hosts[i+1], true, func(reqLog) plan { return pl2 })
				}
				exTrusted := trusted
				if mbt.Bool(in, "fewTrusted") {
					// replay-only dimension: only the first peer is configured as trusted; a request with a trusted head asks
					// the tracked peers (all n connected ones) all the same, and the quorum is one of those asked
					exTrusted = trusted[:1]
				}
				ex := newExchange(t, hosts[0], exTrusted, 0)
				time.Sleep(time.Second)
				synctest.Wait()
				if mbt.Bool(in, "fallback") {
					// replay-only dimension: every connection is closed first, so the peer tracker is empty and a request with
					// a trusted head falls back to (re-dialled) trusted peers — whose answers must be verified all the same
					for i := 1; i <= n; i++ {
						_ = net.DisconnectPeers(hosts[0].ID(), hosts[i].ID())
					}
					synctest.Wait()
				}
				type out struct {
					h   *vh.Header
					err error
					p   any
				}
				done := make(chan out, 1)
				go func() {
					var o out
					defer func() {
						if r := recover(); r != nil {
							o.p = r
						}
						done <- o
					}()
					ctx, cancel := context.WithTimeout(bg, 5*time.Second)
					defer cancel()
					if trustedMode {
						o.h, o.err = ex.Head(ctx, header.WithTrustedHead[*vh.Header](chain.At(4)))
					} else {
						o.h, o.err = ex.Head(ctx)
					}
				}()
				synctest.Wait()
				for _, k := range order {
					if answers[k-1] != "hang" {
						peers[k-1].release()
						synctest.Wait()
					}
				}
				time.Sleep(6 * time.Second)
				synctest.Wait()
				o := <-done
				rec.Panicked = o.p != nil
				rec.Obs.ID = "zero"
				if o.h != nil {
					rec.Obs.ID = "unknown"
					for name, h := range ids {
						if h.Hash().String() == o.h.Hash().String() {
							rec.Obs.ID = name
						}
					}
				}
				var ve *header.VerifyError
				switch {
				case o.err == nil:
					rec.Obs.Err = "nil"
				case errors.As(o.err, &ve) && ve.SoftFailure:
					rec.Obs.Err = "soft"
				case errors.Is(o.err, header.ErrNotFound):
					rec.Obs.Err = "notfound"
				case errors.Is(o.err, context.DeadlineExceeded), errors.Is(o.err, context.Canceled):
					rec.Obs.Err = "ctx"
				default:
					rec.Obs.Err = "other"
					rec.Obs.Msg = o.err.Error()
				}
				_ = ex.Stop(bg)
				time.Sleep(time.Minute)
				synctest.Wait()
				tw.Put(rec)
				res := mbt.Result{ID: id, Key: mbt.J(in), NonTriv: rec.Obs.Err != "nil", Verdict: "ok"}
				want := mbt.Map(c, "predicted")
				if rec.Obs.ID != mbt.Str(want, "id") || rec.Obs.Err != mbt.Str(want, "err") {
					res.Verdict, res.Detail = "drift", fmt.Sprintf("in=%s observed %s, model %s", mbt.J(in), mbt.J(rec.Obs), mbt.J(want))
				}
				rw.Put(res)
			}
			_ = net.Close()
			time.Sleep(time.Minute)
			synctest.Wait()
		})
	}
}
