package p2ph

import (
	"context"
	"os"
	"fmt"
	"sync"
	"testing"
	"testing/synctest"
	"time"

	p2p_pb "github.com/celestiaorg/go-header/p2p/pb"
	"github.com/libp2p/go-libp2p/core/peer"

	"verifharness/mbt"
	"verifharness/vh"
)

// RangeEv is one event of a GetRangeByHeight session (ExchangeTrace.tla).
type RangeEv struct {
	Tr   int    `json:"tr"`
	Ev   string `json:"ev"`
	Seq  int    `json:"seq"`
	Peer int    `json:"peer"`
	O    int    `json:"o"`
	A    int    `json:"a"`
	B    string `json:"b"`
	Sent []int  `json:"sent"`
	Valid bool  `json:"valid"`
	// start
	From       int    `json:"from"`
	Amount     int    `json:"amount"`
	Chunk      int    `json:"chunk"`
	Mode       string `json:"mode"`
	Capable    bool   `json:"capable"`
	Degenerate bool   `json:"degenerate"`
	// result
	OK        bool   `json:"ok"`
	Heights   []int  `json:"heights"`
	BadHeader bool   `json:"badHeader"`
	Panicked  bool   `json:"panicked"`
	Hung      bool   `json:"hung"`
	Err       string `json:"err,omitempty"`
}

type evLog struct {
	mu  sync.Mutex
	evs []RangeEv
}

func (l *evLog) add(e RangeEv) {
	l.mu.Lock()
	e.Seq = len(l.evs)
	if e.Sent == nil {
		e.Sent = []int{}
	}
	if e.Heights == nil {
		e.Heights = []int{}
	}
	l.evs = append(l.evs, e)
	l.mu.Unlock()
}

// behave turns a behaviour class into a concrete answer for request r.
func behave(b string, r reqLog, chain *vh.Chain, avail int, from int, chunk int) (plan, []int, bool) {
	o, a := int(r.Origin), int(r.Amount)
	hts := func(start, n int) []*vh.Header {
		var out []*vh.Header
		for h := start; h < start+n; h++ {
			if x := chain.At(uint64(h)); x != nil {
				out = append(out, x)
			}
		}
		return out
	}
	heights := func(hs []*vh.Header) []int {
		out := []int{}
		for _, h := range hs {
			out = append(out, int(h.H))
		}
		return out
	}
	switch b {
	case "serve", "full", "prefix", "prefixStall":
		if o > avail {
			// (answered after a few virtual milliseconds: a client that keeps asking the same peer for what it does not
			// have must run into its caller's deadline, not spin in zero virtual time)
			pl := notFoundPlan()
			pl.delay = 20 * time.Millisecond
			return pl, nil, true
		}
		n := a
		if o+n-1 > avail {
			n = avail - o + 1
		}
		if (b == "prefix" || b == "prefixStall") && n > 1 {
			n = 1
		}
		hs := hts(o, n)
		if b == "prefixStall" && n < a {
			return plan{items: okItems(hs), end: "stall"}, heights(hs), true
		}
		return plan{items: okItems(hs), end: "close"}, heights(hs), true
	case "notfound":
		return notFoundPlan(), nil, true
	case "empty", "timeout":
		return plan{end: "hold"}, nil, true
	case "disconnect":
		return plan{end: "reset"}, nil, true
	case "shifted":
		start := o - 1
		if start <= from {
			start = o + 1
		}
		hs := hts(start, a)
		return plan{items: okItems(hs), end: "close"}, heights(hs), true
	case "dup":
		start := o - chunk
		if start <= from {
			start = from + 1
		}
		hs := hts(start, a)
		return plan{items: okItems(hs), end: "close"}, heights(hs), true
	case "reordered":
		hs := hts(o, a)
		if len(hs) >= 2 {
			hs[0], hs[1] = hs[1], hs[0]
		}
		return plan{items: okItems(hs), end: "close"}, heights(hs), len(hs) < 2
	case "forged":
		hs := hts(o, a)
		if len(hs) > 0 {
			k := len(hs) / 2
			hs[k] = chain.Forge(hs[k].H, 7)
		}
		return plan{items: okItems(hs), end: "close"}, heights(hs), false
	case "forgedFirst":
		hs := hts(o, a)
		if len(hs) > 0 {
			hs[0] = chain.Forge(hs[0].H, 9)
		}
		return plan{items: okItems(hs), end: "close"}, heights(hs), false
	case "wrongchain":
		hs := hts(o, a)
		if len(hs) > 0 {
			c := hs[len(hs)-1].Clone()
			c.Chain = "otherchain"
			hs[len(hs)-1] = c
		}
		return plan{items: okItems(hs), end: "close"}, heights(hs), false
	case "invalid":
		hs := hts(o, a)
		if len(hs) > 0 {
			c := hs[0].Clone()
			c.Invalid = true
			hs[0] = c
		}
		return plan{items: okItems(hs), end: "close"}, heights(hs), false
	case "forkMid":
		// the right heights, validly signed, but the middle header belongs to another fork: its parent link does not
		// point at its predecessor in the chunk (it is only wrong relative to the header before it)
		hs := hts(o, a)
		if len(hs) >= 2 {
			// (forked one height earlier, so that the header's parent is the other fork's header and not its predecessor here)
			fk := chain.Fork(hs[len(hs)/2].H-1, 77)
			hs[len(hs)/2] = fk.At(hs[len(hs)/2].H)
		}
		return plan{items: okItems(hs), end: "close"}, heights(hs), len(hs) < 2
	case "timeBack":
		// the middle header is dated before its predecessor (though after the header the request started from)
		hs := hts(o, a)
		if len(hs) >= 3 {
			k := len(hs) - 1
			c := hs[k].Clone()
			c.T = hs[k-1].T - int64(500*time.Millisecond)
			hs[k] = c
		}
		return plan{items: okItems(hs), end: "close"}, heights(hs), len(hs) < 3
	case "decodePanic", "validatePanic":
		// a body that makes the application's header type panic while it is decoded (or validated)
		hs := hts(o, a)
		if len(hs) > 0 {
			c := hs[len(hs)/2].Clone()
			c.DecodePanic = true
			hs[len(hs)/2] = c
		}
		return plan{items: okItems(hs), end: "close"}, heights(hs), false
	case "malformed":
		return plan{items: []item{{status: p2p_pb.StatusCode_OK, body: []byte("\x07garbage")}}, end: "close"}, nil, false
	case "unknownStatus":
		return plan{items: []item{{status: 9, body: []byte("x")}}, end: "close"}, nil, false
	case "tooMany":
		hs := hts(o, a+1)
		return plan{items: okItems(hs), end: "close"}, heights(hs[:min(len(hs), a)]), true
	}
	return plan{end: "reset"}, nil, true
}

const livelockAfter = 100 * time.Second

func TestRange(t *testing.T) {
	cases, rw, tw := openIO(t)
	defer rw.Close()
	defer tw.Close()
	for _, c := range cases {
		id := mbt.Int(c, "id")
		from, amount, chunk := mbt.Int(c, "from"), mbt.Int(c, "amount"), mbt.Int(c, "chunk")
		to := mbt.Int(c, "to") // explicit `to` (degenerate requests); 0 = from+amount+1
		mode := mbt.Str(c, "mode")
		peersIn := mbt.List(c, "peers")
		log := &evLog{}
		degenerate := false
		toU := uint64(from + amount + 1)
		if _, ok := c["to"]; ok {
			toU = u64(to)
			degenerate = true
		}
		capable := false
		curTr := id // the trace id events are logged under (a second session of the same client gets its own)
		var second []RangeEv
		// watchdog in REAL time, outside the bubble: a session that spins without ever blocking (no virtual time passes, the
		// bubble never becomes quiescent) would otherwise only end with the driver's timeout.  A case takes milliseconds.
		wd := time.AfterFunc(livelockAfter, func() {
			fmt.Fprintf(os.Stderr, "VH-LIVELOCK case=%d: the call neither returned nor blocked within %s of real time\n", id, livelockAfter)
			rw.Flush()
			tw.Flush()
			os.Exit(7)
		})
		synctest.Test(t, func(t *testing.T) {
			bg := context.Background()
			shift := mbt.Bool(c, "shiftSecond") // the second call asks for the NEXT range (from+amount ..), held by other peers
			chainLen := from + amount + chunk + 8
			if shift {
				chainLen += amount + 2
			}
			chain := vh.NewChain(networkID, 1, chainLen, time.Now().Add(-time.Hour), time.Second, 0)
			net, hosts := newNet(t, len(peersIn)+1)
			var trusted []peer.ID
			for i, pi := range peersIn {
				pm, _ := pi.(map[string]any)
				script := mbt.Strs(pm["script"])
				avail := mbt.Int(pm, "avail")
				if avail == 0 {
					avail = from + amount + chunk + 4
				}
				if len(script) == 0 && avail >= from+amount {
					capable = true
				}
				idx := i + 1
				trusted = append(trusted, hosts[idx].ID())
				newSpeer(hosts[idx], false, func(r reqLog) plan {
					b := "serve"
					if r.N < len(script) && curTr == id { // (in the second session every peer is fault-free)
						b = script[r.N]
					}
					log.add(RangeEv{Tr: curTr, Ev: "req", Peer: idx, O: int(r.Origin), A: int(r.Amount)})
					if b == "dropOthers" {
						// while this (lagging) peer is answering, the connections to every other peer are lost; the links stay,
						// so the client can dial them again
						for j := 1; j < len(hosts); j++ {
							if j != idx {
								_ = net.DisconnectPeers(hosts[0].ID(), hosts[j].ID())
							}
						}
						b = "notfound"
					}
					pl, sent, valid := behave(b, r, chain, avail, from, chunk)
					if pl.end == "hold" || pl.end == "reset" || len(pl.items) == 0 {
						sent, valid = nil, false
					} else if len(pl.items) == 1 && pl.items[0].status == p2p_pb.StatusCode_NOT_FOUND {
						sent, valid = nil, false
					}
					log.add(RangeEv{Tr: curTr, Ev: "resp", Peer: idx, O: int(r.Origin), A: int(r.Amount), B: b, Sent: sent, Valid: valid && len(sent) > 0})
					return pl
				})
			}
			log.add(RangeEv{Tr: id, Ev: "start", From: from, Amount: amount, Chunk: chunk, Mode: mode, Capable: capable, Degenerate: degenerate})
			clientMetrics = mbt.Bool(c, "metrics")
			ex := newExchange(t, hosts[0], trusted, uint64(chunk))
			clientMetrics = false
			time.Sleep(time.Second)
			synctest.Wait()
			type out struct {
				hs  []*vh.Header
				err error
				p   any
			}
			done := make(chan out, 1)
			go func() {
				var o out
				defer func() {
					if r := recover(); r != nil {
						o.p = r
					}
					done <- o
				}()
				ctx, cancel := context.WithTimeout(bg, 2*time.Minute)
				defer cancel()
				o.hs, o.err = ex.GetRangeByHeight(ctx, chain.At(uint64(from)), toU)
			}()
			res := RangeEv{Tr: id, Ev: "result"}
			time.Sleep(3 * time.Minute)
			synctest.Wait()
			select {
			case o := <-done:
				res.Panicked = o.p != nil
				res.OK = o.err == nil && o.p == nil
				if o.err != nil {
					res.Err = o.err.Error()
					if len(res.Err) > 100 {
						res.Err = res.Err[:100]
					}
				}
				for _, h := range o.hs {
					if h == nil || !chain.IsCanon(h) {
						res.BadHeader = true
						if h != nil {
							res.Heights = append(res.Heights, int(h.H))
						}
						continue
					}
					res.Heights = append(res.Heights, int(h.H))
				}
			default:
				res.Hung = true
			}
			log.add(res)
			capable2 := capable
			if mbt.Bool(c, "soloSecond") {
				// is a peer that holds the whole range left once the never-faulting ones are gone?
				capable2 = false
				for _, pi := range peersIn {
					pm, _ := pi.(map[string]any)
					av := mbt.Int(pm, "avail")
					if len(mbt.Strs(pm["script"])) > 0 && (av == 0 || av >= from+amount) {
						capable2 = true
					}
				}
			}
			if mode == "honest" && capable && capable2 && res.OK && !degenerate {
				// the same request once more on the same client: every peer is honest and fault-free by now (the scripts
				// are used up), so a peer that merely timed out or dropped a stream before must still be usable
				log.mu.Lock()
				first := log.evs
				log.evs = nil
				log.mu.Unlock()
				curTr = id + 5000000
				if mbt.Bool(c, "soloSecond") {
					// the peers that never faulted leave the network for good: the one that only timed out / dropped a
					// stream / lagged once is honest and complete, and is all that is left
					for i, pi := range peersIn {
						pm, _ := pi.(map[string]any)
						if len(mbt.Strs(pm["script"])) == 0 {
							_ = net.DisconnectPeers(hosts[0].ID(), hosts[i+1].ID())
							_ = net.UnlinkPeers(hosts[0].ID(), hosts[i+1].ID())
						}
					}
					synctest.Wait()
				}
				from2, toU2 := from, toU
				if shift {
					// a peer that served the first range and has nothing beyond it must not keep the peers that hold the
					// next range (and have served nothing yet) out of the second call
					from2, toU2 = from+amount, uint64(from+2*amount+1)
				}
				log.add(RangeEv{Tr: curTr, Ev: "start", From: from2, Amount: amount, Chunk: chunk, Mode: mode, Capable: capable})
				done2 := make(chan out, 1)
				go func() {
					var o out
					defer func() {
						if r := recover(); r != nil {
							o.p = r
						}
						done2 <- o
					}()
					ctx, cancel := context.WithTimeout(bg, 2*time.Minute)
					defer cancel()
					o.hs, o.err = ex.GetRangeByHeight(ctx, chain.At(uint64(from2)), toU2)
				}()
				res2 := RangeEv{Tr: curTr, Ev: "result"}
				time.Sleep(3 * time.Minute)
				synctest.Wait()
				select {
				case o := <-done2:
					res2.Panicked = o.p != nil
					res2.OK = o.err == nil && o.p == nil
					if o.err != nil {
						res2.Err = o.err.Error()
						if len(res2.Err) > 100 {
							res2.Err = res2.Err[:100]
						}
					}
					for _, h := range o.hs {
						if h == nil || !chain.IsCanon(h) {
							res2.BadHeader = true
							continue
						}
						res2.Heights = append(res2.Heights, int(h.H))
					}
				default:
					res2.Hung = true
				}
				log.add(res2)
				log.mu.Lock()
				second = log.evs
				log.evs = first
				log.mu.Unlock()
			}
			_ = ex.Stop(bg)
			_ = net.Close()
			time.Sleep(time.Minute)
			synctest.Wait()
		})
		wd.Stop()
		log.mu.Lock()
		// the session log starts with "start": move it to the front (peers are created before it is written)
		var evs []RangeEv
		for _, e := range log.evs {
			if e.Ev == "start" {
				evs = append([]RangeEv{e}, evs...)
			} else {
				evs = append(evs, e)
			}
		}
		log.mu.Unlock()
		var last RangeEv
		for _, e := range evs {
			tw.Put(e)
			last = e
		}
		for _, e := range second { // (starts with its own "start" event)
			tw.Put(e)
		}
		r := mbt.Result{ID: id, Key: mbt.J(c), NonTriv: !last.OK || len(evs) > 4, Verdict: "ok"}
		if last.Panicked {
			r.Detail = fmt.Sprintf("panic in case %s", mbt.J(c))
		}
		rw.Put(r)
	}
}

// TestWire: real ExchangeServer over a real Store, real client: Head / Get / GetByHeight / GetRangeByHeight must
// return the server's headers unchanged through the wire encoding (C18, last sentence).
func TestWire(t *testing.T) {
	_, rw, tw := openIO(t)
	defer rw.Close()
	defer tw.Close()
	for run := 0; run < 4; run++ {
		var ev RangeEv
		synctest.Test(t, func(t *testing.T) {
			bg := context.Background()
			head := 20 + run*37
			chain := vh.NewChain(networkID, 1, head+2, time.Now().Add(-time.Hour), time.Second, 0)
			st, _ := newStore(t, chain, 1+run, head)
			net, hosts := newNet(t, 2)
			srv, err := newServer(hosts[1], st)
			if err != nil {
				t.Fatal(err)
			}
			ex := newExchange(t, hosts[0], []peer.ID{hosts[1].ID()}, uint64(3+run*7))
			time.Sleep(time.Second)
			synctest.Wait()
			ctx, cancel := context.WithTimeout(bg, time.Minute)
			ev = RangeEv{Tr: 100000 + run, Ev: "wire", OK: true, Sent: []int{}, Heights: []int{}}
			same := func(a, b *vh.Header) bool { return a != nil && b != nil && a.Hash().String() == b.Hash().String() && mbt.J(a) == mbt.J(b) }
			if h, err := ex.Head(ctx); err != nil || !same(h, chain.At(uint64(head))) {
				ev.OK, ev.Err = false, fmt.Sprintf("Head: %v", err)
			}
			mid := chain.At(uint64(head / 2))
			if h, err := ex.Get(ctx, mid.Hash()); err != nil || !same(h, mid) {
				ev.OK, ev.Err = false, fmt.Sprintf("Get: %v", err)
			}
			if h, err := ex.GetByHeight(ctx, mid.H); err != nil || !same(h, mid) {
				ev.OK, ev.Err = false, fmt.Sprintf("GetByHeight: %v", err)
			}
			from := chain.At(uint64(1 + run))
			hs, err := ex.GetRangeByHeight(ctx, from, uint64(head+1))
			if err != nil || len(hs) != head-(1+run) {
				ev.OK, ev.Err = false, fmt.Sprintf("GetRangeByHeight: %v (%d headers)", err, len(hs))
			}
			for i, h := range hs {
				if !same(h, chain.At(uint64(2+run+i))) {
					ev.OK, ev.Err = false, "GetRangeByHeight: header differs"
				}
			}
			cancel()
			_ = ex.Stop(bg)
			_ = srv.Stop(bg)
			_ = st.Stop(bg)
			_ = net.Close()
			time.Sleep(time.Minute)
			synctest.Wait()
		})
		tw.Put(ev)
		rw.Put(mbt.Result{ID: ev.Tr, Key: fmt.Sprint(ev.Tr), NonTriv: true, Verdict: "ok"})
	}
	// two trusted servers with different heads: a real ExchangeServer over a short store answers first (NOT_FOUND for
	// what it does not have), a slower peer holds the whole chain; Get / GetByHeight must return the longer server's data
	for run := 0; run < 3; run++ {
		var ev RangeEv
		synctest.Test(t, func(t *testing.T) {
			bg := context.Background()
			short, long := 4+run, 9+2*run
			chain := vh.NewChain(networkID, 1, long+2, time.Now().Add(-time.Hour), time.Second, 0)
			st, _ := newStore(t, chain, 1, short)
			net, hosts := newNet(t, 3)
			srv, err := newServer(hosts[1], st)
			if err != nil {
				t.Fatal(err)
			}
			newSpeer(hosts[2], false, func(r reqLog) plan {
				var pl plan
				if len(r.Hash) > 0 {
					pl = notFoundPlan()
					for h := 1; h <= long; h++ {
						if x := chain.At(uint64(h)); string(x.Hash()) == string(r.Hash) {
							pl = plan{items: []item{okItem(x)}, end: "close"}
						}
					}
				} else {
					pl, _, _ = behave("serve", r, chain, long, 0, 64)
				}
				pl.delay = time.Second // the short server's answer arrives first
				return pl
			})
			ex := newExchange(t, hosts[0], []peer.ID{hosts[1].ID(), hosts[2].ID()}, 4)
			time.Sleep(time.Second)
			synctest.Wait()
			ctx, cancel := context.WithTimeout(bg, time.Minute)
			ev = RangeEv{Tr: 100100 + run, Ev: "wire", OK: true, Sent: []int{}, Heights: []int{}}
			want := chain.At(uint64(short + 2))
			if h, err := ex.GetByHeight(ctx, want.H); err != nil || h == nil || h.Hash().String() != want.Hash().String() {
				ev.OK, ev.Err = false, fmt.Sprintf("GetByHeight(%d) with a shorter server answering first: %v", want.H, err)
			}
			if h, err := ex.Get(ctx, want.Hash()); err != nil || h == nil || h.Hash().String() != want.Hash().String() {
				ev.OK, ev.Err = false, fmt.Sprintf("Get(hash of %d) with a shorter server answering first: %v", want.H, err)
			}
			cancel()
			_ = ex.Stop(bg)
			_ = srv.Stop(bg)
			_ = st.Stop(bg)
			_ = net.Close()
			time.Sleep(time.Minute)
			synctest.Wait()
		})
		tw.Put(ev)
		rw.Put(mbt.Result{ID: ev.Tr, Key: fmt.Sprint(ev.Tr), NonTriv: true, Verdict: "ok"})
	}
}
