package p2ph

import (
	"bytes"
	"context"
	"io"
	"os"
	"sync"
	"testing"
	"testing/synctest"
	"time"

	"github.com/celestiaorg/go-header/p2p"
	p2p_pb "github.com/celestiaorg/go-header/p2p/pb"
	"github.com/libp2p/go-libp2p/core/network"
	"github.com/libp2p/go-libp2p/core/protocol"

	"verifharness/mbt"
	"verifharness/vh"
)

// dlStream is an inbound stream that honours deadlines (mocknet streams do not): the request is read from a buffer;
// every Write is taken by the remote reader one per `period` of virtual time, and fails with a timeout once the write
// deadline has passed.
type dlStream struct {
	mu       sync.Mutex
	in       *bytes.Reader
	period   time.Duration
	wdl      time.Time
	next     time.Time // when the remote reader takes the next write
	writes   int
	resetAt  time.Time
	closedAt time.Time
	isReset  bool
	closed   bool
}

func (s *dlStream) Read(p []byte) (int, error) { return s.in.Read(p) }
func (s *dlStream) Write(p []byte) (int, error) {
	s.mu.Lock()
	if s.isReset || s.closed {
		s.mu.Unlock()
		return 0, network.ErrReset
	}
	now := time.Now()
	if s.next.Before(now) {
		s.next = now
	}
	at, dl := s.next, s.wdl
	s.mu.Unlock()
	if !dl.IsZero() && at.After(dl) {
		if d := time.Until(dl); d > 0 {
			time.Sleep(d)
		}
		return 0, os.ErrDeadlineExceeded
	}
	if d := time.Until(at); d > 0 {
		time.Sleep(d)
	}
	s.mu.Lock()
	s.writes++
	s.next = at.Add(s.period)
	s.mu.Unlock()
	return len(p), nil
}
func (s *dlStream) Close() error {
	s.mu.Lock()
	defer s.mu.Unlock()
	if !s.closed {
		s.closed, s.closedAt = true, time.Now()
	}
	return nil
}
func (s *dlStream) CloseRead() error  { return nil }
func (s *dlStream) CloseWrite() error { return nil }
func (s *dlStream) Reset() error {
	s.mu.Lock()
	defer s.mu.Unlock()
	if !s.isReset {
		s.isReset, s.resetAt = true, time.Now()
	}
	return nil
}
func (s *dlStream) ResetWithError(network.StreamErrorCode) error { return s.Reset() }
func (s *dlStream) SetDeadline(t time.Time) error                { return s.SetWriteDeadline(t) }
func (s *dlStream) SetReadDeadline(time.Time) error              { return nil }
func (s *dlStream) SetWriteDeadline(t time.Time) error {
	s.mu.Lock()
	defer s.mu.Unlock()
	s.wdl = t
	return nil
}
func (s *dlStream) ID() string                  { return "verif-dl" }
func (s *dlStream) Protocol() protocol.ID       { return exProto }
func (s *dlStream) SetProtocol(protocol.ID) error { return nil }
func (s *dlStream) Stat() network.Stats         { return network.Stats{Direction: network.DirInbound} }
func (s *dlStream) Conn() network.Conn          { return nil }
func (s *dlStream) Scope() network.StreamScope  { return nil }

var _ io.ReadWriteCloser = (*dlStream)(nil)

// DeadlineRec: one request served to a slowly reading peer over a stream that honours deadlines.
type DeadlineRec struct {
	Tr        int  `json:"tr"`
	Amount    int  `json:"amount"`
	PeriodMs  int  `json:"periodMs"`  // the remote reader takes one response per period
	ElapsedMs int  `json:"elapsedMs"` // virtual time the handler was busy
	BudgetMs  int  `json:"budgetMs"`  // RequestTimeout + WriteDeadline (reading the request takes no time here)
	Writes    int  `json:"writes"`
	Reset     bool `json:"reset"`
	Hung      bool `json:"hung"`
	Panicked  bool `json:"panicked"`
}

// TestServerDeadline: C10 "neither panics nor hangs beyond its timeouts" against a peer that drains the answer slowly:
// the handler is done (answer written, or stream reset) within RequestTimeout + WriteDeadline however many responses
// the answer has.
func TestServerDeadline(t *testing.T) {
	_, rw, tw := openIO(t)
	defer rw.Close()
	defer tw.Close()
	id := 0
	for _, amount := range []int{1, 2, 8, 64} {
		for _, period := range []time.Duration{0, 100 * time.Millisecond, 2 * time.Second, 7 * time.Second} {
			rec := DeadlineRec{Tr: 800000 + id, Amount: amount, PeriodMs: int(period / time.Millisecond)}
			id++
			synctest.Test(t, func(t *testing.T) {
				chain := vh.NewChain(networkID, 1, 80, time.Now().Add(-time.Hour), time.Second, 0)
				st, _ := newStore(t, chain, 5, 75)
				net, hosts := newNet(t, 1)
				srv, err := p2p.NewExchangeServer[*vh.Header](hosts[0], st, p2p.WithNetworkID[p2p.ServerParameters](networkID))
				if err != nil {
					t.Fatal(err)
				}
				bg := context.Background()
				if err := srv.Start(bg); err != nil {
					t.Fatal(err)
				}
				params := p2p.DefaultServerParameters()
				rec.BudgetMs = int((params.RequestTimeout + params.WriteDeadline) / time.Millisecond)
				s := &dlStream{in: bytes.NewReader(encodeReq(&p2p_pb.HeaderRequest{Data: &p2p_pb.HeaderRequest_Origin{Origin: 6}, Amount: uint64(amount)})), period: period}
				t0 := time.Now()
				done := make(chan struct{})
				go func() {
					defer close(done)
					defer func() {
						if r := recover(); r != nil {
							rec.Panicked = true
						}
					}()
					srv.VerifServe(s)
				}()
				select {
				case <-done:
				case <-time.After(2 * time.Hour):
					rec.Hung = true
				}
				rec.ElapsedMs = int(time.Since(t0) / time.Millisecond)
				s.mu.Lock()
				rec.Writes, rec.Reset = s.writes, s.isReset
				s.mu.Unlock()
				_ = srv.Stop(bg)
				_ = st.Stop(bg)
				_ = net.Close()
				time.Sleep(time.Minute)
				synctest.Wait()
			})
			tw.Put(rec)
			rw.Put(mbt.Result{ID: rec.Tr, Key: mbt.J(rec.Tr), NonTriv: rec.PeriodMs > 0, Verdict: "ok"})
		}
	}
}
