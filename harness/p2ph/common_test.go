// Package p2ph drives the real p2p.ExchangeServer / p2p.Exchange / p2p.Subscriber on libp2p's mocknet
// inside testing/synctest bubbles, with scripted peers speaking the wire protocol directly.
package p2ph

import (
	"context"
	"errors"
	"io"
	"math/rand"
	"os"
	"strconv"
	"sync"
	"testing"
	"time"

	header "github.com/celestiaorg/go-header"
	p2p_pb "github.com/celestiaorg/go-header/p2p/pb"
	"github.com/celestiaorg/go-header/store"
	"github.com/celestiaorg/go-libp2p-messenger/serde"
	libhost "github.com/libp2p/go-libp2p/core/host"
	"github.com/libp2p/go-libp2p/core/network"
	"github.com/libp2p/go-libp2p/core/protocol"
	mocknet "github.com/libp2p/go-libp2p/p2p/net/mock"

	"verifharness/mbt"
	"verifharness/rec"
	"verifharness/vh"
)

const networkID = "verif"

// exProto is the exchange protocol id for networkID (replicated from p2p/helpers.go: protocolID).
var exProto = protocol.ID("/" + networkID + "/header-ex/v0.0.3")

func u64(v int) uint64 { // model value (mod 1024) -> uint64, see Server.tla
	if v < 512 {
		return uint64(v)
	}
	return ^uint64(0) - uint64(1024-v) + 1
}

// storeProxy records how the server uses its store.
type storeProxy struct {
	*store.Store[*vh.Header]
	mu    sync.Mutex
	spans [][2]uint64
	calls []string
	stall bool // every read blocks until its context ends (a stalled datastore)
}

func (p *storeProxy) stalled(ctx context.Context) error {
	p.mu.Lock()
	st := p.stall
	p.mu.Unlock()
	if !st {
		return nil
	}
	<-ctx.Done()
	return ctx.Err()
}

func (p *storeProxy) Head(ctx context.Context, opts ...header.HeadOption[*vh.Header]) (*vh.Header, error) {
	if err := p.stalled(ctx); err != nil {
		return nil, err
	}
	return p.Store.Head(ctx, opts...)
}

func (p *storeProxy) Get(ctx context.Context, h header.Hash) (*vh.Header, error) {
	if err := p.stalled(ctx); err != nil {
		return nil, err
	}
	return p.Store.Get(ctx, h)
}

func (p *storeProxy) note(s string) {
	p.mu.Lock()
	p.calls = append(p.calls, s)
	p.mu.Unlock()
}

func (p *storeProxy) GetRange(ctx context.Context, from, to uint64) ([]*vh.Header, error) {
	p.mu.Lock()
	p.spans = append(p.spans, [2]uint64{from, to})
	p.mu.Unlock()
	if err := p.stalled(ctx); err != nil {
		return nil, err
	}
	return p.Store.GetRange(ctx, from, to)
}

func (p *storeProxy) GetByHeight(ctx context.Context, h uint64) (*vh.Header, error) {
	p.mu.Lock()
	p.spans = append(p.spans, [2]uint64{h, h + 1})
	p.mu.Unlock()
	if err := p.stalled(ctx); err != nil {
		return nil, err
	}
	return p.Store.GetByHeight(ctx, h)
}

func (p *storeProxy) GetRangeByHeight(ctx context.Context, from *vh.Header, to uint64) ([]*vh.Header, error) {
	p.mu.Lock()
	p.spans = append(p.spans, [2]uint64{from.Height() + 1, to})
	p.mu.Unlock()
	return p.Store.GetRangeByHeight(ctx, from, to)
}

func (p *storeProxy) reset() {
	p.mu.Lock()
	p.spans, p.calls = nil, nil
	p.mu.Unlock()
}

var _ header.Store[*vh.Header] = (*storeProxy)(nil)

// pruneFault selects the interrupted-and-retried pruning variant of newStore.
var pruneFault bool

// newStore builds a real Store holding chain heights tail..head (pruned through DeleteRange when tail > 1).
func newStore(t *testing.T, chain *vh.Chain, tail, head int) (*store.Store[*vh.Header], *rec.Store) {
	rs := rec.New()
	st, err := store.NewStore[*vh.Header](rs, store.WithWriteBatchSize(16))
	if err != nil {
		t.Fatal(err)
	}
	bg := context.Background()
	if err := st.Start(bg); err != nil {
		t.Fatal(err)
	}
	if err := st.Append(bg, chain.Range(1, uint64(head+1))...); err != nil {
		t.Fatal(err)
	}
	if err := st.Sync(bg); err != nil {
		t.Fatal(err)
	}
	if tail > 2 && pruneFault {
		// variant: the pruning is interrupted by a datastore fault between the two deletions of the header right
		// under the new tail, and retried from the store's tail until it succeeds (what a pruner does)
		rs.FailWrites(2*(tail-2)+1, 1)
		err := st.DeleteRange(bg, 1, uint64(tail))
		for k := 0; err != nil && k < 4; k++ {
			tl, terr := st.Tail(bg)
			if terr != nil {
				t.Fatal(terr)
			}
			if tl.Height() >= uint64(tail) {
				err = nil
				break
			}
			err = st.DeleteRange(bg, tl.Height(), uint64(tail))
		}
		if err != nil {
			t.Fatal(err)
		}
		if rs.Failed() != 1 {
			t.Fatalf("scripted fault fired %d times", rs.Failed())
		}
	} else if tail > 1 {
		if (tail+head)%2 == 1 {
			// every other store is pruned the way a long-running node is: its caches are warm (everything was read
			// before) and the deletion takes the parallel path
			for h := 1; h <= head; h++ {
				_, _ = st.GetByHeight(bg, uint64(h))
				_, _ = st.Get(bg, chain.At(uint64(h)).Hash())
			}
			old := store.VerifSetDeleteParallelThreshold(2)
			defer store.VerifSetDeleteParallelThreshold(old)
		}
		if err := st.DeleteRange(bg, 1, uint64(tail)); err != nil {
			t.Fatal(err)
		}
	}
	return st, rs
}

func newNet(t *testing.T, n int) (mocknet.Mocknet, []libhost.Host) {
	net, err := mocknet.FullMeshConnected(n)
	if err != nil {
		t.Fatal(err)
	}
	return net, net.Hosts()
}

type rawResp struct {
	Status  string `json:"status"` // ok | notfound | reset | unknown
	Heights []int  `json:"heights"`
	Bad     bool   `json:"bad"` // a body that is not the chain's header of its height
	N       int    `json:"n"`
}

// rawRequest writes payload on a fresh stream to the server and reads every response.
func rawRequest(ctx context.Context, from libhost.Host, to libhost.Host, payload []byte, chain *vh.Chain) rawResp {
	out := rawResp{Heights: []int{}}
	s, err := from.NewStream(ctx, to.ID(), exProto)
	if err != nil {
		out.Status = "reset"
		return out
	}
	if len(payload) > 0 {
		if _, err := s.Write(payload); err != nil {
			_ = s.Reset()
			out.Status = "reset"
			return out
		}
	}
	_ = s.CloseWrite()
	var resps []*p2p_pb.HeaderResponse
	var rerr error
	for {
		r := new(p2p_pb.HeaderResponse)
		if _, err := serde.Read(s, r); err != nil {
			rerr = err
			break
		}
		resps = append(resps, r)
		if len(resps) > 200 {
			break
		}
	}
	_ = s.Close()
	out.N = len(resps)
	if len(resps) == 0 {
		out.Status = "reset"
		if errors.Is(rerr, io.EOF) {
			out.Status = "reset" // closed without any response: same as a reset for the property
		}
		return out
	}
	switch resps[0].StatusCode {
	case p2p_pb.StatusCode_OK:
		out.Status = "ok"
	case p2p_pb.StatusCode_NOT_FOUND:
		out.Status = "notfound"
		return out
	default:
		out.Status = "unknown"
		return out
	}
	for _, r := range resps {
		if r.StatusCode != p2p_pb.StatusCode_OK {
			out.Bad = true
			continue
		}
		h := new(vh.Header)
		if err := h.UnmarshalBinary(r.Body); err != nil || !chain.IsCanon(h) {
			out.Bad = true
			continue
		}
		out.Heights = append(out.Heights, int(h.Height()))
	}
	return out
}

func encodeReq(req *p2p_pb.HeaderRequest) []byte {
	var buf bufWriter
	if _, err := serde.Write(&buf, req); err != nil {
		panic(err)
	}
	return buf.b
}

type bufWriter struct{ b []byte }

func (w *bufWriter) Write(p []byte) (int, error) { w.b = append(w.b, p...); return len(p), nil }

func seed() int64 {
	s, _ := strconv.ParseInt(mbt.Env("VERIF_SEED", "1"), 10, 64)
	return s
}

func openIO(t *testing.T) ([]map[string]any, *mbt.Writer, *mbt.Writer) {
	path := os.Getenv("VH_CASES")
	if path == "" {
		t.Skip("VH_CASES not set")
	}
	cases, err := mbt.ReadCases(path)
	if err != nil {
		t.Fatal(err)
	}
	rw, err := mbt.NewWriter(os.Getenv("VH_OUT"))
	if err != nil {
		t.Fatal(err)
	}
	tw, err := mbt.NewWriter(os.Getenv("VH_TRACE"))
	if err != nil {
		t.Fatal(err)
	}
	return cases, rw, tw
}

var _ = rand.Int
var _ = time.Now
var _ network.Stream
