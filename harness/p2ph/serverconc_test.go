package p2ph

// TestServerConc: every row of ServerConc.tla — a range request, one store mutation (the head grows, older headers are
// back-filled below the tail, the tail is pruned) and the position at which it happens: right after the first or after the
// second store call the server makes for that request.  The mutation is applied to the real Store from inside the recording
// proxy, i.e. in the server's own handler goroutine between two of its store calls.  Judged by ServerConcTrace.tla.

import (
	"context"
	"fmt"
	"sync"
	"testing"
	"testing/synctest"
	"time"

	header "github.com/celestiaorg/go-header"
	"github.com/celestiaorg/go-header/p2p"
	p2p_pb "github.com/celestiaorg/go-header/p2p/pb"

	"verifharness/mbt"
	"verifharness/vh"
)

type mutProxy struct {
	*storeProxy
	cmu   sync.Mutex
	n     int
	pos   int
	mut   func()
	fired bool
}

func (p *mutProxy) after() {
	p.cmu.Lock()
	p.n++
	fire := p.n == p.pos && p.mut != nil && !p.fired
	if fire {
		p.fired = true
	}
	p.cmu.Unlock()
	if fire {
		p.mut()
	}
}

func (p *mutProxy) HasAt(ctx context.Context, h uint64) bool {
	r := p.storeProxy.Store.HasAt(ctx, h)
	p.after()
	return r
}

func (p *mutProxy) Head(ctx context.Context, opts ...header.HeadOption[*vh.Header]) (*vh.Header, error) {
	h, err := p.storeProxy.Head(ctx, opts...)
	p.after()
	return h, err
}

func (p *mutProxy) GetRange(ctx context.Context, from, to uint64) ([]*vh.Header, error) {
	hs, err := p.storeProxy.GetRange(ctx, from, to)
	p.after()
	return hs, err
}

type C10CRec struct {
	Tr    int            `json:"tr"`
	In    map[string]any `json:"in"`
	Obs   C10Obs         `json:"obs"`
	Hung  bool           `json:"hung"`
	Fired bool           `json:"fired"`
}

func TestServerConc(t *testing.T) {
	cases, rw, tw := openIO(t)
	defer rw.Close()
	defer tw.Close()
	for _, c := range cases {
		in := mbt.Map(c, "in")
		id := mbt.Int(c, "id")
		synctest.Test(t, func(t *testing.T) {
			tail, head := mbt.Int(in, "tail"), mbt.Int(in, "head")
			chain := vh.NewChain(networkID, 1, head+6, time.Now().Add(-time.Hour), time.Second, 0)
			st, _ := newStore(t, chain, tail, head)
			bg := context.Background()
			proxy := &mutProxy{storeProxy: &storeProxy{Store: st}, pos: mbt.Int(in, "pos")}
			var mutErr error
			switch m := mbt.Str(in, "m"); m {
			case "grow1", "grow3":
				d := map[string]int{"grow1": 1, "grow3": 3}[m]
				proxy.mut = func() {
					if mutErr = st.Append(bg, chain.Range(uint64(head+1), uint64(head+1+d))...); mutErr == nil {
						mutErr = st.Sync(bg)
					}
				}
			case "backfill1", "backfill2":
				d := map[string]int{"backfill1": 1, "backfill2": 2}[m]
				proxy.mut = func() {
					if mutErr = st.Append(bg, chain.Range(uint64(tail-d), uint64(tail))...); mutErr == nil {
						mutErr = st.Sync(bg)
					}
				}
			case "prune1", "prune2":
				d := map[string]int{"prune1": 1, "prune2": 2}[m]
				proxy.mut = func() { mutErr = st.DeleteRange(bg, uint64(tail), uint64(tail+d)) }
			}
			net, hosts := newNet(t, 2)
			srv, err := p2p.NewExchangeServer[*vh.Header](hosts[1], proxy, p2p.WithNetworkID[p2p.ServerParameters](networkID))
			if err != nil {
				t.Fatal(err)
			}
			if err := srv.Start(bg); err != nil {
				t.Fatal(err)
			}
			payload := encodeReq(&p2p_pb.HeaderRequest{Data: &p2p_pb.HeaderRequest_Origin{Origin: uint64(mbt.Int(in, "origin"))}, Amount: uint64(mbt.Int(in, "amount"))})
			done := make(chan rawResp, 1)
			go func() {
				ctx, cancel := context.WithTimeout(bg, 10*time.Minute)
				defer cancel()
				done <- rawRequest(ctx, hosts[0], hosts[1], payload, chain)
			}()
			synctest.Wait()
			rec := C10CRec{Tr: id, In: in}
			var r rawResp
			select {
			case r = <-done:
			default:
				time.Sleep(3 * time.Minute)
				synctest.Wait()
				select {
				case r = <-done:
				default:
					rec.Hung = true
					r = rawResp{Status: "hung", Heights: []int{}}
				}
			}
			rec.Obs = C10Obs{Status: r.Status, Heights: r.Heights, Spans: [][]int{}}
			if r.Bad {
				rec.Obs.Status = "bad"
			}
			proxy.storeProxy.mu.Lock()
			for _, sp := range proxy.storeProxy.spans {
				rec.Obs.Spans = append(rec.Obs.Spans, []int{toModel(sp[0]), toModel(sp[1])})
			}
			proxy.storeProxy.mu.Unlock()
			proxy.cmu.Lock()
			rec.Fired = proxy.fired
			proxy.cmu.Unlock()
			tw.Put(rec)
			res := mbt.Result{ID: id, Key: mbt.J(in), NonTriv: mbt.Str(in, "m") != "none", Verdict: "ok"}
			want := mbt.Map(c, "predicted")
			if mutErr != nil {
				res.Verdict = "drift"
				res.Detail = fmt.Sprintf("in=%s: the scripted store mutation failed: %v", mbt.J(in), mutErr)
			} else if r.Status != mbt.Str(want, "status") || mbt.J(r.Heights) != mbt.J(mbt.Ints(want["heights"])) || mbt.J(rec.Obs.Spans) != mbt.J(normSpans(want["spans"])) {
				res.Verdict = "drift"
				res.Detail = fmt.Sprintf("in=%s observed %s, model %s", mbt.J(in), mbt.J(rec.Obs), mbt.J(want))
			}
			rw.Put(res)
			_ = srv.Stop(bg)
			_ = st.Stop(bg)
			_ = net.Close()
			synctest.Wait()
		})
	}
}
