// Package storeh replays Store.tla behaviours on the real store.Store and records, per step, the
// full observation (public API read-back + raw datastore keys + write log) as NDJSON for
// evaluation by StoreTrace.tla (property layer) and comparison with the model's prediction
// (implementation layer).
package storeh

import (
	"context"
	"encoding/json"
	"errors"
	"fmt"
	"os"
	"sort"
	"strconv"
	"strings"
	"sync"
	"runtime"
	"testing"
	"testing/synctest"
	"time"

	header "github.com/celestiaorg/go-header"
	"github.com/celestiaorg/go-header/store"
	ds "github.com/ipfs/go-datastore"
	contextds "github.com/ipfs/go-datastore/context"

	"verifharness/mbt"
	"verifharness/rec"
	"verifharness/vh"
)

const prefix = "/headers/"

type call struct {
	H        int    `json:"h"`
	Handler  int    `json:"handler"`
	Readable bool   `json:"readable"`
	Out      string `json:"out"` // ok | err | panic
}

// Obs is the projection shared with Store.tla (Proj) plus the API agreement bits of C04.
type Obs struct {
	Head  int   `json:"head"`
	Tail  int   `json:"tail"`
	Hs    int   `json:"hs"`
	R     []int `json:"R"`
	RH    []int `json:"RH"`
	KH    []int `json:"KH"`
	KI    []int `json:"KI"`
	Hp    int   `json:"hp"`
	Tp    int   `json:"tp"`
	Has   []int `json:"HAS"`
	HasAt []int `json:"HASAT"`
	GR    []int `json:"GR"`    // pairs a*100+b for which GetRange(a,b) and GetRangeByHeight returned exactly a..b-1
	BadGR []int `json:"BADGR"` // pairs for which a nil error came with something else
	BadR  []int `json:"BADR"`  // heights for which GetByHeight/Get returned a wrong header with nil error
	Other int   `json:"other"` // raw keys that are none of head/tail/index/header
}

// Event is one line of the recorded trace.
type Event struct {
	Tr     int    `json:"tr"`
	I      int    `json:"i"`
	Op     string `json:"op"`
	B      []int  `json:"b"`
	From   int    `json:"from"`
	To     int    `json:"to"`
	FailAt int    `json:"failAt"`
	Res    string `json:"res"`
	Err    string `json:"err,omitempty"`
	Calls  []call `json:"calls"`
	Obs    Obs    `json:"obs"`
	Pre    *Obs   `json:"pre,omitempty"` // C06: observation before the continuation append
	WS     []W    `json:"ws"`
	N      int    `json:"n"`
	Img    []int  `json:"img,omitempty"` // C06: header keys present in the crashed image
	Cont   int    `json:"cont,omitempty"`
	Cfg    string `json:"cfg"`
	// datastore write failure inside a DeleteRange (variant dfail): the failed attempt, and the retry that follows it
	DsFault      bool `json:"dsFault"`
	AfterDsFault bool `json:"afterDsFault"`
	// CtxRefused: this deletion ran with a caller deadline over a datastore that refuses operations on a done context
	CtxRefused bool `json:"ctxRefused"`
	// Also: heights appended by an OnDelete handler while this deletion ran (reentrant use)
	Also []int `json:"also,omitempty"`
}

// W is an abstract write-log entry (same shape as Store.tla's writes).
type W struct {
	T  string `json:"t"`
	Hs []int  `json:"hs"`
	A  int    `json:"a"`
	B  int    `json:"b"`
}

type cfg struct {
	ctx   bool
	bsz   int
	cache int
	n     int
	pfx   string // a non-default store prefix (replay configuration; "" = the default "headers")
}

// keyPrefix is the datastore namespace the Store under test writes to.
func (c cfg) keyPrefix() string {
	if c.pfx != "" {
		return "/" + c.pfx + "/"
	}
	return prefix
}

type env struct {
	t      *testing.T
	cfg    cfg
	chain  *vh.Chain
	byHash map[string]int
	rs     *rec.Store
	user   ds.Batching
	st     *store.Store[*vh.Header]
	calls  []call
	callMu sync.Mutex
	failAt int
	slow   bool // timeout mode: every handler invocation takes one (virtual) second
	slowCtx bool // ... and gives up when its context is done; the datastore refuses operations on a done context as well
	failSet map[int]bool
	panicK bool
	up     bool
	failNF bool // the failing handler returns an error wrapping datastore.ErrNotFound
	reuse  bool // Start re-starts the existing Store object instead of building a new one
	// reentrant use: while the handlers of appendAt run, the first handler appends appendB (headers right above the head) and
	// waits until the flush loop has taken them in — an Append that lands in the pending batch during a deletion
	appendAt int
	appendB  []int
	also     []int // what that handler has appended during the current operation
}

func newEnv(t *testing.T, c cfg, img map[string][]byte) *env {
	e := &env{t: t, cfg: c}
	e.chain = vh.NewChain("c", 1, c.n+6, time.Now().Add(-time.Hour), time.Second, 0)
	e.byHash = map[string]int{}
	for _, h := range e.chain.Headers {
		e.byHash[h.Hash().String()] = int(h.H)
	}
	if c.ctx {
		ts := rec.NewTxn()
		if img != nil {
			ts.Store = rec.FromImage(img)
		}
		e.rs = ts.Store
		e.user = contextds.WrapDatastore(ts).(ds.Batching)
	} else {
		e.rs = rec.New()
		if img != nil {
			e.rs = rec.FromImage(img)
		}
		e.user = e.rs
	}
	return e
}

func (e *env) open() error {
	if e.reuse && e.st != nil {
		// the handlers registered on the object stay registered
		if err := e.st.Start(context.Background()); err != nil {
			return err
		}
		e.up = true
		return nil
	}
	sopts := []store.Option{store.WithWriteBatchSize(e.cfg.bsz), store.WithStoreCacheSize(e.cfg.cache), store.WithIndexCacheSize(e.cfg.cache)}
	if e.cfg.pfx != "" {
		sopts = append(sopts, store.WithStorePrefix(e.cfg.pfx))
	}
	s, err := store.NewStore[*vh.Header](e.user, sopts...)
	if err != nil {
		return err
	}
	e.st = s
	// three handlers: the first and the third always succeed, the second fails for failAt
	s.OnDelete(func(ctx context.Context, h uint64) error {
		_, err := s.GetByHeight(ctx, h)
		if e.slow && e.slowCtx {
			// the handler honours its context: it gives up when the deletion's share of the deadline is over
			select {
			case <-time.After(time.Second):
			case <-ctx.Done():
				e.callMu.Lock()
				defer e.callMu.Unlock()
				e.calls = append(e.calls, call{H: int(h), Handler: 1, Readable: err == nil, Out: "err"})
				return ctx.Err()
			}
		} else if e.slow {
			time.Sleep(time.Second)
		}
		if e.appendAt != 0 && int(h) == e.appendAt {
			e.appendAt = 0
			hs := make([]*vh.Header, 0, len(e.appendB))
			for _, b := range e.appendB {
				hs = append(hs, e.chain.At(uint64(b)))
			}
			if aerr := s.Append(context.Background(), hs...); aerr == nil {
				e.also = append(e.also, e.appendB...)
			}
			synctest.Wait() // the flush loop has taken the batch in (it stays pending unless the batch size makes it flush)
		}
		e.callMu.Lock()
		defer e.callMu.Unlock()
		e.calls = append(e.calls, call{H: int(h), Handler: 1, Readable: err == nil, Out: "ok"})
		return nil
	})
	s.OnDelete(func(ctx context.Context, h uint64) error {
		_, err := s.GetByHeight(ctx, h)
		c := call{H: int(h), Handler: 2, Readable: err == nil, Out: "ok"}
		e.callMu.Lock()
		defer e.callMu.Unlock()
		if int(h) == e.failAt || e.failSet[int(h)] {
			if e.panicK {
				c.Out = "panic"
				e.calls = append(e.calls, c)
				panic("scripted handler panic")
			}
			c.Out = "err"
			e.calls = append(e.calls, c)
			if e.failNF {
				// a handler that cleans up its own datastore and reports what that datastore said
				return fmt.Errorf("handler: removing data of %d: %w", h, ds.ErrNotFound)
			}
			return errors.New("scripted handler failure")
		}
		e.calls = append(e.calls, c)
		return nil
	})
	// a third handler that always succeeds: a failure of the second one must not be masked by what runs after it
	s.OnDelete(func(ctx context.Context, h uint64) error {
		_, err := s.GetByHeight(ctx, h)
		e.callMu.Lock()
		defer e.callMu.Unlock()
		e.calls = append(e.calls, call{H: int(h), Handler: 3, Readable: err == nil, Out: "ok"})
		return nil
	})
	if err := s.Start(context.Background()); err != nil {
		return err
	}
	e.up = true
	return nil
}

func (e *env) stop() error {
	if !e.up {
		return nil
	}
	e.up = false
	return e.st.Stop(context.Background())
}

func bctx() (context.Context, context.CancelFunc) {
	return context.WithTimeout(context.Background(), time.Second)
}

func (e *env) classifyKey(k string) (kind string, h int) {
	if !strings.HasPrefix(k, e.cfg.keyPrefix()) {
		return "other", 0
	}
	s := strings.TrimPrefix(k, e.cfg.keyPrefix())
	switch s {
	case "head":
		return "head", 0
	case "tail":
		return "tail", 0
	}
	if n, err := strconv.ParseUint(s, 10, 64); err == nil {
		return "idx", int(n)
	}
	if hh, ok := e.byHash[s]; ok {
		return "hdr", hh
	}
	return "other", 0
}

func (e *env) ptrHeight(v []byte) int {
	var hs header.Hash
	if err := hs.UnmarshalJSON(v); err != nil {
		return -1
	}
	if h, ok := e.byHash[hs.String()]; ok {
		return h
	}
	return -1
}

func (e *env) rawKeys(o *Obs) {
	snap := e.rs.Snapshot()
	for k, v := range snap {
		kind, h := e.classifyKey(k)
		switch kind {
		case "head":
			o.Hp = e.ptrHeight(v)
		case "tail":
			o.Tp = e.ptrHeight(v)
		case "idx":
			o.KI = append(o.KI, h)
		case "hdr":
			o.KH = append(o.KH, h)
		default:
			o.Other++
		}
	}
	sort.Ints(o.KI)
	sort.Ints(o.KH)
}

func (e *env) observe() Obs {
	o := Obs{R: []int{}, RH: []int{}, KH: []int{}, KI: []int{}, Has: []int{}, HasAt: []int{}, GR: []int{}, BadGR: []int{}, BadR: []int{}}
	e.rawKeys(&o)
	if !e.up {
		return o
	}
	s := e.st
	bg := context.Background()
	if h, err := s.Head(bg); err == nil {
		o.Head = int(h.Height())
	}
	if t, err := s.Tail(bg); err == nil {
		o.Tail = int(t.Height())
	}
	o.Hs = int(s.Height())
	top := e.cfg.n + 1
	for h := 1; h <= top; h++ {
		ctx, cancel := bctx()
		got, err := s.GetByHeight(ctx, uint64(h))
		cancel()
		if err == nil {
			if got == nil || int(got.Height()) != h || !e.chain.IsCanon(got) {
				o.BadR = append(o.BadR, h)
			} else {
				o.R = append(o.R, h)
			}
		}
		want := e.chain.At(uint64(h))
		got, err = s.Get(bg, want.Hash())
		if err == nil {
			if got == nil || got.Hash().String() != want.Hash().String() {
				o.BadR = append(o.BadR, 1000+h)
			} else {
				o.RH = append(o.RH, h)
			}
		}
		if ok, err := s.Has(bg, want.Hash()); err == nil && ok {
			o.Has = append(o.Has, h)
		}
	}
	for h := 0; h <= top; h++ {
		if s.HasAt(bg, uint64(h)) {
			o.HasAt = append(o.HasAt, h)
		}
	}
	for a := 1; a <= top; a++ {
		for b := a + 1; b <= top+1; b++ {
			ctx, cancel := bctx()
			got, err := s.GetRange(ctx, uint64(a), uint64(b))
			cancel()
			exact := err == nil && e.exactRange(got, a, b)
			if err == nil && !exact {
				o.BadGR = append(o.BadGR, a*100+b)
			}
			exact2 := exact
			if a >= 2 {
				ctx, cancel = bctx()
				got2, err2 := s.GetRangeByHeight(ctx, e.chain.At(uint64(a-1)), uint64(b))
				cancel()
				exact2 = err2 == nil && e.exactRange(got2, a, b)
				if err2 == nil && !exact2 {
					o.BadGR = append(o.BadGR, 10000+a*100+b)
				}
			}
			if exact && exact2 {
				o.GR = append(o.GR, a*100+b)
			}
		}
	}
	return o
}

func (e *env) exactRange(got []*vh.Header, a, b int) bool {
	if len(got) != b-a {
		return false
	}
	for i, g := range got {
		if g == nil || int(g.Height()) != a+i || !e.chain.IsCanon(g) {
			return false
		}
	}
	return true
}

// abstractLog converts write-log entries [from:] into Store.tla's write vocabulary.
func (e *env) abstractLog(log []rec.Entry) []W {
	out := []W{}
	for _, en := range log {
		if !en.Batch {
			o := en.Ops[0]
			kind, h := e.classifyKey(o.Key)
			w := W{Hs: []int{}}
			switch {
			case kind == "head" && o.Del:
				w.T = "delHeadPtr"
			case kind == "tail" && o.Del:
				w.T = "delTailPtr"
			case kind == "head":
				w.T, w.A = "putHead", e.ptrHeight(o.Val)
			case kind == "tail":
				w.T, w.A = "putTail", e.ptrHeight(o.Val)
			case kind == "hdr" && o.Del:
				w.T, w.Hs = "delH", []int{h}
			case kind == "idx" && o.Del:
				w.T, w.Hs = "delI", []int{h}
			default:
				w.T = "other:" + o.Key
			}
			out = append(out, w)
			continue
		}
		w := W{Hs: []int{}}
		hdr, idx := map[int]bool{}, map[int]bool{}
		dels, puts := 0, 0
		for _, o := range en.Ops {
			kind, h := e.classifyKey(o.Key)
			if o.Del {
				dels++
			} else {
				puts++
			}
			switch kind {
			case "hdr":
				hdr[h] = true
			case "idx":
				idx[h] = true
			case "head":
				w.A = e.ptrHeight(o.Val)
			case "tail":
				w.B = e.ptrHeight(o.Val)
			default:
				w.T = "other:" + o.Key
			}
		}
		if w.T == "" {
			switch {
			case puts > 0 && dels == 0:
				w.T = "commit"
			case dels > 0 && puts == 0:
				w.T = "delbatch"
			default:
				w.T = "mixedbatch"
			}
			if mbt.J(mbt.SortedInts(hdr)) != mbt.J(mbt.SortedInts(idx)) {
				w.T += ":hdr!=idx"
			}
		}
		w.Hs = mbt.SortedInts(hdr)
		out = append(out, w)
	}
	return out
}

func ints(v any) []int { return mbt.Ints(v) }

type stepOut struct {
	ev  Event
	pan any
}

// variant selects how a behaviour is driven.
type variant struct {
	name     string
	nowait   bool // an Append directly followed by DeleteRange is not awaited (and not observed)
	parallel bool // DeleteRange takes the parallel path (threshold lowered through the verif hook)
	free     bool // hand-built scenario without model prediction: judged by the property layer only
	failOp   int  // index of the op whose datastore writes fail transiently (-1: none)
	failN    int
	dfail    int // >0: the dfail-th datastore write of the last operation (a DeleteRange) fails; the deletion is then retried
	sameobj  bool // Stop / Start are called on one and the same Store object (a restart inside one process)
}

func parseVariant(s string) variant {
	v := variant{name: s, failOp: -1}
	switch {
	case s == "nowait":
		v.nowait = true
	case s == "parallel":
		v.parallel = true
	case s == "free":
		v.free = true
	case s == "sameobj":
		v.sameobj = true
	case strings.HasPrefix(s, "wfail:"):
		fmt.Sscanf(s, "wfail:%d:%d", &v.failOp, &v.failN)
	case strings.HasPrefix(s, "dfail:"):
		fmt.Sscanf(s, "dfail:%d", &v.dfail)
	case strings.HasPrefix(s, "free+dfail:"): // a hand-built scenario (no model prediction) with a datastore fault in its last deletion
		v.free = true
		fmt.Sscanf(s, "free+dfail:%d", &v.dfail)
	}
	return v
}

// doOp executes one abstract operation and returns the recorded event.
func (e *env) doOp(op map[string]any, idx int, v variant, skipWait, last bool) (ev Event) {
	name := mbt.Str(op, "op")
	ev = Event{Op: name, B: ints(op["b"]), From: mbt.Int(op, "from"), To: mbt.Int(op, "to"), FailAt: mbt.Int(op, "failAt"),
		Res: "ok", Calls: []call{}, N: e.cfg.n, Also: []int{}}
	if ev.B == nil {
		ev.B = []int{}
	}
	logStart := e.rs.LogLen()
	e.calls = nil
	bg := context.Background()
	var err error
	func() {
		defer func() {
			if r := recover(); r != nil {
				err = fmt.Errorf("PANIC: %v", r)
				ev.Res = "panic"
			}
		}()
		switch name {
		case "append":
			hs := make([]*vh.Header, 0, len(ev.B))
			for _, h := range ev.B {
				hs = append(hs, e.chain.At(uint64(h)))
			}
			err = e.st.Append(bg, hs...)
		case "sync":
			err = e.st.Sync(bg)
		case "delete":
			if ev.From < 0 { // "from the current tail" (retry of a tail-side deletion)
				if tl, terr := e.st.Tail(bg); terr == nil {
					ev.From = int(tl.Height())
				} else {
					ev.From = 0
				}
			}
			if ev.To < 0 { // "up to the current head" (retry of a head-side deletion)
				if hd, herr := e.st.Head(bg); herr == nil {
					ev.To = int(hd.Height()) + 1
				} else {
					ev.To = 0
				}
			}
			e.failAt = ev.FailAt
			e.appendAt, e.appendB, e.also = mbt.Int(op, "appendAt"), ints(op["appendB"]), nil
			e.failSet = map[int]bool{}
			for _, f := range ints(op["failSet"]) {
				e.failSet[f] = true
			}
			e.panicK = (idx+ev.FailAt)%3 == 1
			e.failNF = (idx+ev.FailAt)%3 == 2
			ctx, cancel := context.WithTimeout(bg, time.Hour)
			if mbt.Str(op, "fk") == "timeout" && ev.FailAt != 0 {
				// the caller's deadline is placed so that 95% of it has elapsed exactly when deleteSingle reaches failAt:
				// one virtual second per removed header (the first handler sleeps), j headers exist below failAt
				j := 0 // (taken from the model's prediction of what is removed: it only places the deadline, it is no verdict)
				for _, g := range ints(op["gone"]) {
					if g < ev.FailAt {
						j++
					}
				}
				j0 := j
				if j == 0 {
					j = 1
				}
				cancel()
				e.failAt = 0
				e.slow = true
				// every other timeout row: handler and datastore both honour the context (the deletion stops inside the
				// handler of failAt, with the last 5% of the caller's deadline left for the bookkeeping)
				// (plain flavour only: a batching datastore that refuses a done context refuses the deletion's final commit,
				// which legitimately undoes the whole call — a different behaviour, not a variant of this one)
				e.slowCtx = (idx+ev.FailAt)%2 == 0 && !e.cfg.ctx
				e.rs.HonourCtx = e.slowCtx
				ev.CtxRefused = e.slowCtx
				d := time.Duration(float64(time.Duration(j)*time.Second-500*time.Millisecond) / 0.95)
				if e.slowCtx {
					// the deletion's share of the deadline ends half a second into the handler of failAt
					d = time.Duration(float64(time.Duration(j0)*time.Second+500*time.Millisecond) / 0.95)
				}
				ctx, cancel = context.WithTimeout(bg, d)
			}
			if (v.parallel && last) || mbt.Bool(op, "par") {
				old := store.VerifSetDeleteParallelThreshold(2)
				err = e.st.DeleteRange(ctx, uint64(ev.From), uint64(ev.To))
				store.VerifSetDeleteParallelThreshold(old)
			} else {
				err = e.st.DeleteRange(ctx, uint64(ev.From), uint64(ev.To))
			}
			cancel()
			e.failAt = 0
			e.slow, e.slowCtx = false, false
			e.rs.HonourCtx = false
			e.failSet = nil
		case "stop":
			err = e.stop()
		case "start":
			err = e.open()
		default:
			err = fmt.Errorf("unknown op %s", name)
		}
	}()
	if skipWait {
		return ev
	}
	if v.failOp >= 0 {
		time.Sleep(30 * time.Second) // virtual: lets the flush retry loop finish
	}
	synctest.Wait()
	if err != nil && ev.Res != "panic" {
		ev.Res = "err"
	}
	if err != nil {
		ev.Err = err.Error()
		if len(ev.Err) > 200 {
			ev.Err = ev.Err[:200]
		}
	}
	ev.Calls = append(ev.Calls, e.calls...)
	ev.Also = append([]int{}, e.also...)
	e.also, e.appendAt = nil, 0
	ev.WS = e.abstractLog(e.rs.Log()[logStart:])
	ev.Obs = e.observe()
	return ev
}

func cfgName(c cfg) string {
	if c.pfx != "" {
		return fmt.Sprintf("bsz=%d,cache=%d,ctx=%v,prefix=%s", c.bsz, c.cache, c.ctx, c.pfx)
	}
	return fmt.Sprintf("bsz=%d,cache=%d,ctx=%v", c.bsz, c.cache, c.ctx)
}

// predicted projection → comparable form
func projEq(o Obs, p map[string]any, up bool) (bool, string) {
	type cmp struct {
		name string
		got  any
		want any
	}
	var cs []cmp
	cs = append(cs, cmp{"KH", o.KH, ints(p["KH"])}, cmp{"KI", o.KI, ints(p["KI"])},
		cmp{"hp", o.Hp, mbt.Int(p, "hp")}, cmp{"tp", o.Tp, mbt.Int(p, "tp")})
	if up {
		cs = append(cs, cmp{"head", o.Head, mbt.Int(p, "head")}, cmp{"tail", o.Tail, mbt.Int(p, "tail")},
			cmp{"R", o.R, ints(p["R"])}, cmp{"RH", o.RH, ints(p["RH"])})
		if o.Head != 0 {
			cs = append(cs, cmp{"hs", o.Hs, mbt.Int(p, "hs")})
		}
	}
	for _, c := range cs {
		if mbt.J(c.got) != mbt.J(c.want) {
			return false, fmt.Sprintf("%s: observed %s, model %s", c.name, mbt.J(c.got), mbt.J(c.want))
		}
	}
	return true, ""
}

func wsEq(got []W, want []any) bool {
	if len(got) != len(want) {
		return false
	}
	for i := range got {
		w, _ := want[i].(map[string]any)
		if got[i].T != mbt.Str(w, "t") || mbt.J(got[i].Hs) != mbt.J(ints(w["hs"])) || got[i].A != mbt.Int(w, "a") || got[i].B != mbt.Int(w, "b") {
			return false
		}
	}
	return true
}

// runBehaviour replays one exported behaviour; mode "crash" additionally reopens the store on every
// write-log prefix of the last operation.
func runBehaviour(t *testing.T, id int, c map[string]any, cacheSz int, crash bool, tw, rw *mbt.Writer) {
	v := parseVariant(mbt.Str(c, "variant"))
	if v.nowait {
		// first an ordinary run to obtain the synced observations of the steps that will not be awaited
		base := runOnce(t, id, c, cacheSz, variant{name: "base", failOp: -1}, nil)
		if base.fatal != "" {
			return
		}
		old := runtime.GOMAXPROCS(1)
		defer runtime.GOMAXPROCS(old)
		r := runOnce(t, id, c, cacheSz, v, base.events)
		emit(id, c, r, tw, rw)
		return
	}
	r := runOnce(t, id, c, cacheSz, v, nil)
	emit(id, c, r, tw, rw)
	if crash && r.fatal == "" && v.name == "" {
		crashPrefixes(t, id, c, cacheSz, r, tw)
	}
}

type runResult struct {
	events       []Event
	drift        []string
	fatal        string
	lastLogStart int
	baseLog      []rec.Entry
	cf           cfg
}

func emit(id int, c map[string]any, r runResult, tw, rw *mbt.Writer) {
	for _, ev := range r.events {
		tw.Put(ev)
	}
	res := mbt.Result{ID: id, Key: mbt.J(c["hist"]) + mbt.Str(c, "variant"), NonTriv: len(mbt.List(c, "hist")) > 1}
	switch {
	case r.fatal != "":
		res.Verdict, res.Detail = "violation", r.fatal
		res.Sig = map[string]any{"family": "store", "symptom": "start_failed"}
	case len(r.drift) > 0:
		res.Verdict, res.Detail = "drift", strings.Join(r.drift, "; ")
	default:
		res.Verdict = "ok"
	}
	rw.Put(res)
}

func runOnce(t *testing.T, id int, c map[string]any, cacheSz int, v variant, baseEvents []Event) (rr runResult) {
	hist := mbt.List(c, "hist")
	cf := cfg{ctx: mbt.Bool(c, "ctx"), bsz: mbt.Int(c, "bsz"), cache: cacheSz, n: mbt.Int(c, "n")}
	if id%5 == 0 {
		cf.pfx = "hx" // every fifth behaviour runs under a non-default store prefix (everything the Store writes lives there)
	}
	var events []Event
	var drift []string
	var fatal string
	var lastLogStart int
	var e *env
	var baseLog []rec.Entry
	dfailRetried, noEpilogue, extraEv := false, false, 0
	defer func() {
		rr = runResult{events: events, drift: drift, fatal: fatal, lastLogStart: lastLogStart, baseLog: baseLog, cf: cf}
	}()
	opName := func(i int) string {
		if i < 0 || i >= len(hist) {
			return ""
		}
		st, _ := hist[i].(map[string]any)
		return mbt.Str(mbt.Map(st, "op"), "op")
	}
	synctest.Test(t, func(t *testing.T) {
		e = newEnv(t, cf, nil)
		e.reuse = v.sameobj
		if err := e.open(); err != nil {
			fatal = "initial Start: " + err.Error()
			return
		}
		synctest.Wait()
		for i, st := range hist {
			step, _ := st.(map[string]any)
			op := mbt.Map(step, "op")
			if mbt.Str(op, "op") == "crash" {
				continue // model crash behaviours are not replayed directly (the harness enumerates prefixes itself)
			}
			lastLogStart = e.rs.LogLen()
			skip := v.nowait && opName(i) == "append" && (opName(i+1) == "delete" || opName(i+1) == "stop") && i < len(baseEvents)
			if v.failOp == i && (opName(i) == "append" || opName(i) == "sync" || opName(i) == "stop") {
				e.rs.FailWrites(0, v.failN)
			}
			dfailNow := v.dfail > 0 && i == len(hist)-1 && opName(i) == "delete"
			if dfailNow {
				e.rs.FailWrites(v.dfail-1, 1)
			}
			ev := e.doOp(op, id+i, v, skip, i == len(hist)-1)
			e.rs.ClearFails()
			ev.Tr, ev.I, ev.Cfg = id, i, cfgName(cf)+","+v.name
			if dfailNow {
				// the failed attempt is recorded but not judged; the same deletion is then retried from wherever the
				// pointers ended up, and the retry is judged as a deletion of the original range
				ev.DsFault = ev.Res != "ok"
				events = append(events, ev)
				if ev.Res == "panic" {
					break
				}
				if ev.Res != "ok" && mbt.Str(op, "kind") == "head" && (id+v.dfail)%2 == 0 {
					// instead of retrying, the caller goes on appending right above whatever Head() reports now: the chain
					// must stay one gap-free run (also across the restart of the epilogue)
					if hd, herr := e.st.Head(context.Background()); herr == nil {
						h0 := int(hd.Height())
						if h0+2 > e.cfg.n {
							e.cfg.n = h0 + 2
						}
						ap := map[string]any{"op": "append", "b": []any{float64(h0 + 1), float64(h0 + 2)}}
						ev2 := e.doOp(ap, id+i+1, v, false, false)
						ev2.Tr, ev2.I, ev2.Cfg = id, i+1, cfgName(cf)+","+v.name+",append-after-fault"
						events = append(events, ev2)
						sy := e.doOp(map[string]any{"op": "sync"}, id+i+2, v, false, false)
						sy.Tr, sy.I, sy.Cfg = id, i+2, cfgName(cf)+","+v.name+",append-after-fault"
						events = append(events, sy)
						dfailRetried, extraEv = true, 1
					}
					continue
				}
				if ev.Res != "ok" {
					retry := map[string]any{"op": "delete", "from": float64(-1), "to": float64(ev.To), "failAt": float64(0)}
					if mbt.Str(op, "kind") == "head" {
						retry["from"], retry["to"] = float64(ev.From), float64(-1)
					}
					ev2 := e.doOp(retry, id+i+1, v, false, false)
					ev2.Tr, ev2.I, ev2.Cfg = id, i+1, cfgName(cf)+","+v.name+",retry"
					ev2.AfterDsFault = true
					if mbt.Str(op, "kind") != "head" {
						ev2.From = ev.From // judged against the original range
					} else {
						ev2.To = ev.To
					}
					events = append(events, ev2)
					dfailRetried = true
					// a deletion that failed on a datastore write and could not be completed by the retry leaves pointers
					// that only a later successful deletion repairs: no clean-restart verdict for that state
					noEpilogue = ev2.Res != "ok"
				}
				continue
			}
			if skip {
				// the synced observation of this step comes from the awaited run of the same behaviour
				ev.Obs, ev.WS, ev.Res = baseEvents[i].Obs, baseEvents[i].WS, baseEvents[i].Res
				events = append(events, ev)
				continue
			}
			events = append(events, ev)
			if ev.Res == "panic" {
				break
			}
			if v.nowait && i > 0 && opName(i-1) == "append" && (opName(i) == "delete" || opName(i) == "stop") {
				// the write log of the unawaited append is merged into this step: no write-level comparison
				ev.WS = nil
			}
			if v.free || (v.parallel && opName(i) == "delete" && ev.FailAt != 0) {
				continue // the parallel path may remove headers above a failed one: outcome is judged by the property layer only
			}
			if ok, why := projEq(ev.Obs, mbt.Map(step, "proj"), e.up); !ok {
				drift = append(drift, fmt.Sprintf("step %d (%s): %s", i, mbt.J(op), why))
			}
			if wantRes := mbt.Str(op, "res"); mbt.Str(op, "op") == "delete" && wantRes != ev.Res {
				drift = append(drift, fmt.Sprintf("step %d (%s): result %s, model %s", i, mbt.J(op), ev.Res, wantRes))
			}
			if ev.WS != nil && v.failOp < 0 && !(v.parallel && opName(i) == "delete") && !wsEq(ev.WS, mbt.List(op, "ws")) {
				drift = append(drift, fmt.Sprintf("step %d (%s): writes %s, model %s", i, mbt.J(op), mbt.J(ev.WS), mbt.J(op["ws"])))
			}
		}
		baseLog = e.rs.Log()
		// restart epilogue: every behaviour ends with a clean Stop and a Start over the same datastore; the two
		// events carry no model prediction and are judged by the property layer only (a clean restart reports the
		// same Head, Tail and headers; C04 holds on the reopened store).
		panicked := len(events) > 0 && events[len(events)-1].Res == "panic"
		if !panicked && v.failOp < 0 && !noEpilogue && os.Getenv("VH_NOEPILOGUE") == "" {
			n := len(hist)
			if dfailRetried {
				n += 1 + extraEv
			}
			for _, name := range []string{"stop", "start"} {
				if name == "stop" && !e.up {
					continue
				}
				ev := e.doOp(map[string]any{"op": name}, id+n, v, false, false)
				ev.Tr, ev.I, ev.Cfg = id, n, cfgName(cf)+","+v.name+",epilogue"
				n++
				events = append(events, ev)
				if ev.Res != "ok" {
					break
				}
			}
		}
		if v.sameobj && e.up && !panicked && !noEpilogue {
			// the restarted object is used once more: a one-header tail-side deletion (its handlers must still run)
			if tl, err := e.st.Tail(context.Background()); err == nil {
				if hd, err2 := e.st.Head(context.Background()); err2 == nil && hd.Height() > tl.Height() {
					n := len(events)
					if len(events) > 0 {
						n = events[len(events)-1].I + 1
					}
					ev := e.doOp(map[string]any{"op": "delete", "from": float64(tl.Height()), "to": float64(tl.Height() + 1), "failAt": float64(0)}, id+n, v, false, false)
					ev.Tr, ev.I, ev.Cfg = id, n, cfgName(cf)+","+v.name+",after-restart"
					events = append(events, ev)
				}
			}
		}
		_ = e.stop()
		synctest.Wait()
	})
	return
}

func crashPrefixes(t *testing.T, id int, c map[string]any, cacheSz int, r runResult, tw *mbt.Writer) {
	cf, baseLog, lastLogStart := r.cf, r.baseLog, r.lastLogStart
	// C06: every prefix of the write log that ends inside (or right after) the last operation
	nlog := len(baseLog)
	for p := lastLogStart; p <= nlog; p++ {
		if p == nlog && p != lastLogStart && false {
			continue
		}
		img := rec.ImageAfter(nil, baseLog, p)
		var ev Event
		synctest.Test(t, func(t *testing.T) {
			e2 := newEnv(t, cf, img)
			ev = Event{Tr: id, I: 1000 + p, Op: "recover", B: []int{}, Calls: []call{}, WS: []W{}, N: cf.n, Res: "ok", Cfg: cfgName(cf)}
			var o0 Obs
			e2.rawKeys(&o0)
			ev.Img = o0.KH
			if ev.Img == nil {
				ev.Img = []int{}
			}
			func() {
				defer func() {
					if r := recover(); r != nil {
						ev.Res, ev.Err = "panic", fmt.Sprint(r)
					}
				}()
				if p%3 == 2 {
					// every third prefix: the first datastore write after the crash fails as well (a transient failure): the
					// store still starts, whatever it wanted to clean up
					e2.rs.FailWrites(0, 1)
					ev.Cfg += ",wfail0"
				}
				if err := e2.open(); err != nil {
					ev.Res, ev.Err = "err", err.Error()
				}
			}()
			synctest.Wait()
			if ev.Res != "ok" {
				ev.Obs = e2.observe()
				return
			}
			pre := e2.observe()
			ev.Pre = &pre
			// continuation: the two headers after the highest stored one
			maxStored := 0
			for _, h := range o0.KH {
				if h > maxStored {
					maxStored = h
				}
			}
			ev.Cont = maxStored
			if p%2 == 1 {
				// every other prefix continues with a different header at the next heights (a re-organisation after a
				// head-side deletion): stale leftovers of the old headers of those heights must not hide the new ones
				e2.chain = e2.chain.Fork(uint64(maxStored+1), 9)
				for _, h := range e2.chain.Headers {
					e2.byHash[h.Hash().String()] = int(h.H)
				}
				ev.Cfg += ",fork"
			}
			err := e2.st.Append(context.Background(), e2.chain.At(uint64(maxStored+1)), e2.chain.At(uint64(maxStored+2)))
			synctest.Wait()
			if err == nil {
				err = e2.st.Sync(context.Background())
			}
			synctest.Wait()
			if err != nil {
				ev.Res, ev.Err = "err", "continuation: "+err.Error()
			}
			e2.cfg.n = cf.n + 2
			ev.Obs = e2.observe()
			_ = e2.stop()
			synctest.Wait()
		})
		tw.Put(ev)
	}
}

func TestReplay(t *testing.T) {
	path := os.Getenv("VH_CASES")
	if path == "" {
		t.Skip("VH_CASES not set")
	}
	cases, err := mbt.ReadCases(path)
	if err != nil {
		t.Fatal(err)
	}
	rw, err := mbt.NewWriter(os.Getenv("VH_OUT"))
	if err != nil {
		t.Fatal(err)
	}
	defer rw.Close()
	tw, err := mbt.NewWriter(os.Getenv("VH_TRACE"))
	if err != nil {
		t.Fatal(err)
	}
	defer tw.Close()
	crash := os.Getenv("VH_CRASH") == "1"
	base, _ := strconv.Atoi(mbt.Env("VH_IDBASE", "0"))
	for i, c := range cases {
		id := base + mbt.Int(c, "id")
		cache := 2
		if (i+id)%2 == 1 {
			cache = 64
		}
		if v := os.Getenv("VH_CACHE"); v != "" {
			cache, _ = strconv.Atoi(v)
		}
		runBehaviour(t, id, c, cache, crash, tw, rw)
	}
}

var _ = json.Marshal
