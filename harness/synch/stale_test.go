package synch

import (
	"context"
	"testing"
	"testing/synctest"
	"time"

	hsync "github.com/celestiaorg/go-header/sync"

	"verifharness/mbt"
	"verifharness/vh"
)

// StaleRec is one replay of the SyncConc.tla behaviour "a Head() caller parked before pending.Add while gossip
// stores its header" on the real Syncer.
type StaleRec struct {
	Tr          int    `json:"tr"`
	Op          string `json:"op"`
	Parked      bool   `json:"parked"`      // the schedule reached the yield point setLocalHead.beforePendingAdd
	StoreHead   int    `json:"storeHead"`   // the Store's head when the sibling is offered
	SiblingH    int    `json:"siblingH"`    // height of the offered sibling of a stored header
	SiblingRes  string `json:"siblingRes"`  // nil | known | other error class
	NonCanon    int    `json:"nonCanon"`    // stored headers that are not the canonical chain's
	SibStored   bool   `json:"sibStored"`   // the sibling can be read from the Store by its hash
	HeadRets    []int  `json:"headRets"`    // heights returned by Head(), in order
	FinalHead   int    `json:"finalHead"`   // Head() at the end, no network head available
	Via         string `json:"via"`
}

// TestStalePending replays the TLC counterexample of SyncConc.tla (SubjectiveCoversStoreAtRest) through the verif yield
// points: store 1; Head() learns the non-adjacent header 3 and is parked right before pending.Add(3); gossip delivers 2
// and 3 (stored directly); the caller resumes (3 enters the pending cache although it is stored); a second Head() learns
// the adjacent header 4 (stored directly).  Then a valid sibling of header 4 (same parent 3) is offered by gossip: it is
// a header of a height the node has stored, it must be refused as known and must not replace the stored header.
func TestStalePending(t *testing.T) {
	_, rw, tw := openIO(t)
	defer rw.Close()
	defer tw.Close()
	for run := 0; run < 4; run++ {
		rec := StaleRec{Tr: 600000 + run, Op: "stalePending", HeadRets: []int{}, Via: []string{"gossip", "head"}[run%2]}
		synctest.Test(t, func(t *testing.T) {
			bg := context.Background()
			base := time.Now().Add(-30 * time.Second)
			times := make([]int64, 16)
			for i := range times {
				times[i] = base.Add(time.Duration(i) * time.Second).UnixNano()
			}
			chain := vh.NewChainTimes("c", 1, times)
			n := newNode(t, chain, 1, 1+run/2, hsync.WithBlockTime(time.Second), hsync.WithRecencyThreshold(time.Minute),
				hsync.WithTrustingPeriod(100*time.Hour), hsync.WithPruningWindow(1000*time.Hour))
			if err := n.sy.Start(bg); err != nil {
				rec.SiblingRes = "start: " + err.Error()
				return
			}
			synctest.Wait()
			time.Sleep(2 * time.Minute) // the subjective head is stale: Head() asks the network
			answer := 3
			n.get.headFn = func(gcall, *vh.Header) (*vh.Header, error) { return chain.At(uint64(answer)), nil }
			gate := make(chan struct{})
			hsync.VerifHook = func(ctx context.Context, point string, args ...uint64) {
				if point == "setLocalHead.beforePendingAdd" && ctx != nil && ctx.Value(ctxKey{}) != nil && !rec.Parked {
					rec.Parked = true
					<-gate
				}
			}
			defer func() { hsync.VerifHook = nil }()
			head := func(key bool) int {
				ctx := bg
				if key {
					ctx = context.WithValue(bg, ctxKey{}, 1)
				}
				ctx, cancel := context.WithTimeout(ctx, time.Hour)
				defer cancel()
				h, err := n.sy.Head(ctx)
				if err != nil || h == nil {
					return 0
				}
				return int(h.Height())
			}
			done := make(chan int, 1)
			go func() { done <- head(true) }()
			synctest.Wait() // parked before pending.Add(3); the store is at 1
			for _, h := range []int{2, 3} {
				ctx, cancel := context.WithTimeout(bg, time.Minute)
				_ = n.sub.deliver(ctx, chain.At(uint64(h)))
				cancel()
				synctest.Wait()
			}
			close(gate)
			synctest.Wait()
			rec.HeadRets = append(rec.HeadRets, <-done)
			// the next header arrives as the answer to a second stale Head() call (stored directly: it is adjacent)
			time.Sleep(2 * time.Minute)
			answer = 4
			rec.HeadRets = append(rec.HeadRets, head(false))
			synctest.Wait()
			if hd, err := n.st.Head(bg); err == nil {
				rec.StoreHead = int(hd.Height())
			}
			// a valid sibling of the stored header of height 4
			sib := chain.Fork(4, 4242).At(4)
			rec.SiblingH = 4
			if rec.Via == "gossip" {
				ctx, cancel := context.WithTimeout(bg, time.Minute)
				rec.SiblingRes = errClass(n.sub.deliver(ctx, sib))
				cancel()
			} else {
				// ... or as the answer of a lying trusted peer to a third stale Head() call
				time.Sleep(2 * time.Minute)
				n.get.headFn = func(gcall, *vh.Header) (*vh.Header, error) { return sib, nil }
				before := head(false)
				rec.HeadRets = append(rec.HeadRets, before)
				rec.SiblingRes = "head"
			}
			synctest.Wait()
			_ = n.st.Sync(bg)
			for x := 1; x <= 8; x++ {
				ctx, cancel := context.WithTimeout(bg, time.Millisecond)
				got, err := n.st.GetByHeight(ctx, uint64(x))
				cancel()
				if err == nil && !chain.IsCanon(got) {
					rec.NonCanon++
				}
			}
			if _, err := n.st.Get(bg, sib.Hash()); err == nil {
				rec.SibStored = true
			}
			n.get.headFn = func(gcall, *vh.Header) (*vh.Header, error) { return nil, context.DeadlineExceeded }
			rec.FinalHead = head(false)
			hsync.VerifHook = nil
			n.stop()
			synctest.Wait()
		})
		tw.Put(rec)
		rw.Put(mbt.Result{ID: rec.Tr, Key: mbt.J(rec.Tr), NonTriv: true, Verdict: "ok"})
	}
}
