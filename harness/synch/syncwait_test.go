package synch

import (
	"context"
	"errors"
	"testing"
	"testing/synctest"
	"time"

	hsync "github.com/celestiaorg/go-header/sync"

	"verifharness/mbt"
	"verifharness/vh"
)

// WaitRec is one real-thread run of "SyncWait in flight while the attempt it waits for is aborted by a getter error".
type WaitRec struct {
	Tr             int    `json:"tr"`
	Op             string `json:"op"`
	StateBlocked   bool   `json:"stateBlocked"`   // a State() call did not return within 5 s
	StateErrSeen   bool   `json:"stateErrSeen"`   // State() reported the getter error of the aborted attempt
	HeadReached    bool   `json:"headReached"`    // the store reached the next learned head within 10 s
	WaitReturned   bool   `json:"waitReturned"`   // the SyncWait call returned within 10 s
	Note           string `json:"note,omitempty"`
}

// TestSyncWaitFailure runs on real threads (the scenario is about callers blocked on the Syncer's state lock, which a
// synctest bubble cannot wait for): gossip teaches head T, the range request is held, SyncWait is called, the request is
// answered with an error, gossip teaches T+1, the getter is honest from then on.  C07: the error only aborts the current
// attempt — State() reports it, the next learned head resumes from the store head and completes, SyncWait returns.
func TestSyncWaitFailure(t *testing.T) {
	_, rw, tw := openIO(t)
	defer rw.Close()
	defer tw.Close()
	for run := 0; run < 4; run++ {
		rec := WaitRec{Tr: 700000 + run, Op: "syncWaitFailure"}
		func() {
			bg := context.Background()
			N := 6 + run
			chain := vh.NewChain("c", 1, N+8, time.Now().Add(-time.Duration(N+10)*time.Second), time.Second, 0)
			n := newNode(t, chain, 1, 1+run%3, hsync.WithBlockTime(time.Hour))
			hold := make(chan struct{})
			failed := false
			n.get.rangeFn = func(gc gcall, from *vh.Header) ([]*vh.Header, error) {
				if !failed {
					failed = true
					<-hold
					return nil, errors.New("scripted: peers went away")
				}
				return n.get.honestRange(from.Height()+1, gc.To)
			}
			if err := n.sy.Start(bg); err != nil {
				rec.Note = "start: " + err.Error()
				return
			}
			defer n.stop()
			within := func(d time.Duration, f func()) bool {
				done := make(chan struct{})
				go func() { f(); close(done) }()
				select {
				case <-done:
					return true
				case <-time.After(d):
					return false
				}
			}
			T := N - 1
			ctx, cancel := context.WithTimeout(bg, 20*time.Second)
			defer cancel()
			if err := n.sub.deliver(ctx, chain.At(uint64(T))); err != nil {
				rec.Note = "gossip: " + err.Error()
				return
			}
			time.Sleep(50 * time.Millisecond) // the sync loop is inside the held range request
			waitDone := make(chan struct{})
			go func() {
				wctx, wcancel := context.WithTimeout(bg, 15*time.Second)
				defer wcancel()
				_ = n.sy.SyncWait(wctx)
				close(waitDone)
			}()
			time.Sleep(50 * time.Millisecond) // SyncWait is waiting for the target height
			close(hold)                       // the attempt is aborted by the getter error
			var st hsync.State
			for try := 0; try < 100 && !rec.StateErrSeen; try++ {
				if !within(5*time.Second, func() { st = n.sy.State() }) {
					rec.StateBlocked = true
					break
				}
				rec.StateErrSeen = st.Error != ""
				time.Sleep(10 * time.Millisecond)
			}
			if !rec.StateBlocked {
				// the next learned head: the sync resumes from the store head and completes up to it
				_ = within(5*time.Second, func() { _ = n.sub.deliver(ctx, chain.At(uint64(T+1))) })
				for deadline := time.Now().Add(10 * time.Second); time.Now().Before(deadline); time.Sleep(10 * time.Millisecond) {
					if hd, err := n.st.Head(bg); err == nil && int(hd.Height()) == T+1 {
						rec.HeadReached = true
						break
					}
				}
			}
			select {
			case <-waitDone:
				rec.WaitReturned = true
			case <-time.After(10 * time.Second):
			}
		}()
		tw.Put(rec)
		rw.Put(mbt.Result{ID: rec.Tr, Key: mbt.J(rec.Tr), NonTriv: true, Verdict: "ok"})
	}
}

// TimeoutRec: a Head() call whose head request runs into its timeout, followed by a Head() call with healthy peers.
type TimeoutRec struct {
	Tr     int    `json:"tr"`
	Op     string `json:"op"`
	First  int    `json:"first"`  // height returned by the call whose request timed out (the old subjective head)
	Second int    `json:"second"` // height returned by the next call
	Want   int    `json:"want"`   // the head the healthy peers report
	Calls2 int    `json:"calls2"` // head requests made by the second call
	Note   string `json:"note,omitempty"`
}

// TestHeadTimeoutRecovers (virtual time): the trusted peers do not answer the head request of a stale Head() call until
// its own timeout (NetworkHeadRequestTimeout); the call falls back on the subjective head.  Errors only delay: the next
// Head() call, with healthy peers, learns the network head (C07: learned by Head(); C19: exactly one request).
func TestHeadTimeoutRecovers(t *testing.T) {
	_, rw, tw := openIO(t)
	defer rw.Close()
	defer tw.Close()
	for run := 0; run < 3; run++ {
		rec := TimeoutRec{Tr: 710000 + run, Op: "headTimeout", Want: 3 + run}
		synctest.Test(t, func(t *testing.T) {
			bg := context.Background()
			base := time.Now().Add(-30 * time.Second)
			times := make([]int64, 16)
			for i := range times {
				times[i] = base.Add(time.Duration(i) * time.Second).UnixNano()
			}
			chain := vh.NewChainTimes("c", 1, times)
			n := newNode(t, chain, 1, 1, hsync.WithBlockTime(time.Second), hsync.WithRecencyThreshold(time.Minute),
				hsync.WithTrustingPeriod(100*time.Hour), hsync.WithPruningWindow(1000*time.Hour))
			if err := n.sy.Start(bg); err != nil {
				rec.Note = "start: " + err.Error()
				return
			}
			synctest.Wait()
			time.Sleep(2 * time.Minute) // the subjective head is stale
			hang := true
			n.get.pre = func(ctx context.Context, kind string) {
				if kind == "Head" && hang {
					<-ctx.Done() // silent peers: the request ends with its own deadline
				}
			}
			n.get.headFn = func(gcall, *vh.Header) (*vh.Header, error) { return chain.At(uint64(rec.Want)), nil }
			head := func() int {
				ctx, cancel := context.WithTimeout(bg, time.Hour)
				defer cancel()
				h, err := n.sy.Head(ctx)
				if err != nil || h == nil {
					return 0
				}
				return int(h.Height())
			}
			rec.First = head()
			synctest.Wait()
			hang = false
			time.Sleep(2 * time.Minute)
			before := len(n.get.callsOf("Head"))
			rec.Second = head()
			rec.Calls2 = len(n.get.callsOf("Head")) - before
			synctest.Wait()
			n.get.pre = nil
			n.stop()
			synctest.Wait()
		})
		tw.Put(rec)
		rw.Put(mbt.Result{ID: rec.Tr, Key: mbt.J(rec.Tr), NonTriv: true, Verdict: "ok"})
	}
}
