// Package synch drives the real sync.Syncer over a real store.Store with a capturing Subscriber and a
// scripted Getter inside testing/synctest bubbles (virtual time).
package synch

import (
	"context"
	"errors"
	"fmt"
	"os"
	"sync"
	"testing"
	"time"

	header "github.com/celestiaorg/go-header"
	"github.com/celestiaorg/go-header/store"
	hsync "github.com/celestiaorg/go-header/sync"

	"verifharness/mbt"
	"verifharness/rec"
	"verifharness/vh"
)

// fakeSub captures the verifier the Syncer registers; gossip delivery = calling it.
type fakeSub struct {
	mu       sync.Mutex
	verifier func(context.Context, *vh.Header) error
}

func (s *fakeSub) SetVerifier(f func(context.Context, *vh.Header) error) error {
	s.mu.Lock()
	defer s.mu.Unlock()
	s.verifier = f
	return nil
}

func (s *fakeSub) Subscribe() (header.Subscription[*vh.Header], error) { return &fakeSubscription{}, nil }

func (s *fakeSub) deliver(ctx context.Context, h *vh.Header) error {
	s.mu.Lock()
	f := s.verifier
	s.mu.Unlock()
	if f == nil {
		return errors.New("no verifier")
	}
	return f(ctx, h)
}

type fakeSubscription struct{}

func (fakeSubscription) NextHeader(ctx context.Context) (*vh.Header, error) {
	<-ctx.Done()
	return nil, ctx.Err()
}
func (fakeSubscription) Cancel() {}

// gcall is one logged getter call.
type gcall struct {
	Kind    string `json:"kind"` // Head | Get | GetByHeight | GetRangeByHeight
	H       uint64 `json:"h"`    // height / from height
	To      uint64 `json:"to"`
	Trusted bool   `json:"trusted"` // Head: WithTrustedHead present
	TrustedH uint64 `json:"trustedH"`
	N       int    `json:"n"` // n-th call of this kind
}

// getter is the scripted trusted getter.
type getter struct {
	chain *vh.Chain
	mu    sync.Mutex
	calls []gcall
	cnt   map[string]int
	// hooks (nil = honest default)
	headFn  func(c gcall, trusted *vh.Header) (*vh.Header, error)
	byHFn   func(c gcall) (*vh.Header, error)
	rangeFn func(c gcall, from *vh.Header) ([]*vh.Header, error)
	// pre, when set, runs at the start of every getter call with the caller's context (schedule exploration: a gate)
	pre func(ctx context.Context, kind string)
	// gate: when non-nil, every call of the listed kind waits for a token
	gate     chan struct{}
	gateKind string
	inflight int
	maxInfl  int
}

func newGetter(chain *vh.Chain) *getter { return &getter{chain: chain, cnt: map[string]int{}} }

func (g *getter) note(kind string, h, to uint64, trusted *vh.Header) gcall {
	g.mu.Lock()
	c := gcall{Kind: kind, H: h, To: to, N: g.cnt[kind]}
	if trusted != nil {
		c.Trusted, c.TrustedH = true, trusted.Height()
	}
	g.cnt[kind]++
	g.calls = append(g.calls, c)
	if kind == "Head" {
		g.inflight++
		if g.inflight > g.maxInfl {
			g.maxInfl = g.inflight
		}
	}
	gate := g.gate
	gk := g.gateKind
	g.mu.Unlock()
	if gate != nil && gk == kind {
		<-gate
	}
	return c
}

func (g *getter) doneCall(kind string) {
	g.mu.Lock()
	if kind == "Head" {
		g.inflight--
	}
	g.mu.Unlock()
}

func (g *getter) Head(ctx context.Context, opts ...header.HeadOption[*vh.Header]) (*vh.Header, error) {
	if g.pre != nil {
		g.pre(ctx, "Head")
	}
	var p header.HeadParams[*vh.Header]
	for _, o := range opts {
		o(&p)
	}
	c := g.note("Head", 0, 0, p.TrustedHead)
	defer g.doneCall("Head")
	if err := ctx.Err(); err != nil {
		return nil, err
	}
	if g.headFn != nil {
		return g.headFn(c, p.TrustedHead)
	}
	return g.chain.Head(), nil
}

func (g *getter) Get(ctx context.Context, hash header.Hash) (*vh.Header, error) {
	g.note("Get", 0, 0, nil)
	defer g.doneCall("")
	for _, h := range g.chain.Headers {
		if h.Hash().String() == hash.String() {
			return h, nil
		}
	}
	return nil, header.ErrNotFound
}

func (g *getter) GetByHeight(ctx context.Context, height uint64) (*vh.Header, error) {
	if g.pre != nil {
		g.pre(ctx, "GetByHeight")
	}
	c := g.note("GetByHeight", height, 0, nil)
	defer g.doneCall("")
	if g.byHFn != nil {
		return g.byHFn(c)
	}
	if h := g.chain.At(height); h != nil {
		return h, nil
	}
	return nil, header.ErrNotFound
}

func (g *getter) GetRangeByHeight(ctx context.Context, from *vh.Header, to uint64) ([]*vh.Header, error) {
	if g.pre != nil {
		g.pre(ctx, "GetRangeByHeight")
	}
	c := g.note("GetRangeByHeight", from.Height(), to, nil)
	defer g.doneCall("")
	if err := ctx.Err(); err != nil {
		return nil, err
	}
	if g.rangeFn != nil {
		return g.rangeFn(c, from)
	}
	return g.honestRange(from.Height()+1, to)
}

func (g *getter) honestRange(from, to uint64) ([]*vh.Header, error) {
	hs := g.chain.Range(from, to)
	if len(hs) == 0 {
		return nil, header.ErrNotFound
	}
	return hs, nil
}

func (g *getter) callsOf(kind string) []gcall {
	g.mu.Lock()
	defer g.mu.Unlock()
	var out []gcall
	for _, c := range g.calls {
		if c.Kind == kind {
			out = append(out, c)
		}
	}
	return out
}

func (g *getter) resetLog() {
	g.mu.Lock()
	g.calls = nil
	g.mu.Unlock()
}

var _ header.Getter[*vh.Header] = (*getter)(nil)

// node bundles a real Store, a real Syncer, the fake subscriber and the scripted getter.
type node struct {
	st   *store.Store[*vh.Header]
	rs   *rec.Store
	sy   *hsync.Syncer[*vh.Header]
	sub  *fakeSub
	get  *getter
	chain *vh.Chain
}

// storeWrap, when set, wraps the Store handed to the next Syncer built by newNode.
var storeWrap func(*store.Store[*vh.Header]) header.Store[*vh.Header]

// stepStore is a Store whose Append, call by call, either returns as the datastore-backed Store does (the headers are
// queued, Head lags behind until the flush loop has run) or only once they are flushed and Head has caught up (as a
// synchronous Store implementation does).  Both are within the Store contract.
type stepStore struct {
	*store.Store[*vh.Header]
	inStep func() bool
}

func (s *stepStore) Append(ctx context.Context, hs ...*vh.Header) error {
	if err := s.Store.Append(ctx, hs...); err != nil {
		return err
	}
	if s.inStep() {
		return s.Store.Sync(ctx)
	}
	return nil
}

// newNode creates a store pre-populated with chain[1..have] (flushed) and a Syncer with opts; the Syncer is not started.
func newNode(t *testing.T, chain *vh.Chain, have int, bsz int, opts ...hsync.Option) *node {
	n := &node{chain: chain, sub: &fakeSub{}, get: newGetter(chain)}
	n.rs = rec.New()
	st, err := store.NewStore[*vh.Header](n.rs, store.WithWriteBatchSize(bsz))
	if err != nil {
		t.Fatal(err)
	}
	n.st = st
	bg := context.Background()
	if err := st.Start(bg); err != nil {
		t.Fatal(err)
	}
	if have > 0 {
		if err := st.Append(bg, chain.Range(1, uint64(have+1))...); err != nil {
			t.Fatal(err)
		}
		if err := st.Sync(bg); err != nil {
			t.Fatal(err)
		}
	}
	var hst header.Store[*vh.Header] = st
	if storeWrap != nil {
		hst = storeWrap(st)
	}
	sy, err := hsync.NewSyncer[*vh.Header](n.get, hst, n.sub, opts...)
	if err != nil {
		t.Fatal(err)
	}
	n.sy = sy
	return n
}

func (n *node) stop() {
	bg := context.Background()
	func() {
		defer func() { _ = recover() }() // Stop of a Syncer that was never started dereferences a nil cancel func
		_ = n.sy.Stop(bg)
	}()
	_ = n.st.Stop(bg)
}

// errClass classifies a verifier / Head error.
func errClass(err error) string {
	if err == nil {
		return "nil"
	}
	var ve *header.VerifyError
	if errors.As(err, &ve) {
		if ve.SoftFailure {
			return "soft"
		}
		return "hard"
	}
	return "other"
}

func openIO(t *testing.T) ([]map[string]any, *mbt.Writer, *mbt.Writer) {
	path := os.Getenv("VH_CASES")
	if path == "" {
		t.Skip("VH_CASES not set")
	}
	cases, err := mbt.ReadCases(path)
	if err != nil {
		t.Fatal(err)
	}
	rw, err := mbt.NewWriter(os.Getenv("VH_OUT"))
	if err != nil {
		t.Fatal(err)
	}
	tw, err := mbt.NewWriter(os.Getenv("VH_TRACE"))
	if err != nil {
		t.Fatal(err)
	}
	return cases, rw, tw
}

var _ = fmt.Sprint
var _ = time.Now
