package synch

import (
	"context"
	"errors"
	"fmt"
	"testing"
	"testing/synctest"
	"time"

	header "github.com/celestiaorg/go-header"
	hsync "github.com/celestiaorg/go-header/sync"

	"verifharness/mbt"
	"verifharness/vh"
)

// SyncEv is one recorded event of a Syncer behaviour (SyncerTrace.tla).
type SyncEv struct {
	Tr        int    `json:"tr"`
	I         int    `json:"i"`
	E         string `json:"e"`    // gossip | serve
	Kind      string `json:"kind"` // valid | forged | wrongchain | future | stale ; ok | error | empty | nonadjacent
	H         int    `json:"h"`    // gossip: height; serve: number of headers
	Res       string `json:"res"`  // gossip: nil | soft | hard | other
	Head      int    `json:"head"` // store head
	Tail      int    `json:"tail"`
	Holes     []int  `json:"holes"`     // heights in Tail..Head that are not readable
	Orphans   []int  `json:"orphans"`   // readable heights outside Tail..Head
	NonCanon  int    `json:"nonCanon"`  // raw header keys / readable headers that are not the canonical header of their height
	BadStored bool   `json:"badStored"` // the refused header of this event is readable by hash
	BadTarget bool   `json:"badTarget"` // ... or is the sync target (State.ToHash)
	Waiting   bool   `json:"waiting"`   // a range request of the sync loop is outstanding
	ReqFrom   int    `json:"reqFrom"`
	ReqTo     int    `json:"reqTo"`
	StateErr  bool   `json:"stateErr"`
	Finished  bool   `json:"finished"`
	ToHeight  int    `json:"toHeight"`
	SyncWait  string `json:"syncWait"` // nil | err | skipped
	Served    bool   `json:"served"`   // serve: a request was actually outstanding
	Panicked  bool   `json:"panicked"`
	Free      bool   `json:"free"` // hand-built scenario: judged by the property layer only
	ServedN   int    `json:"servedN"` // serve: how many headers the getter actually returned
	DupNil    int    `json:"dupNil"` // collect: how many concurrent deliveries of the same header were accepted
	HeadRet   int    `json:"headRet"`
	Rt        bool   `json:"rt"` // recorded on real threads (no quiescence): timing-dependent clauses are not evaluated
}

type serveOutcome struct {
	k    int
	kind string
}

func TestSyncer(t *testing.T) {
	cases, rw, tw := openIO(t)
	defer rw.Close()
	defer tw.Close()
	for _, c := range cases {
		id := mbt.Int(c, "id")
		N := mbt.Int(c, "n")
		hist := mbt.List(c, "hist")
		free := mbt.Bool(c, "free")
		nodrift := free || mbt.Bool(c, "nodrift")
		var evs []SyncEv
		var drift []string
		// scenarios in which a goroutine waits on the handler's mutex cannot run in a bubble (a mutex wait is not a
		// durable block for synctest): they run on real threads with short real sleeps between the steps
		realtime := mbt.Bool(c, "realtime")
		wait := synctest.Wait
		runIn := func(f func(t *testing.T)) { synctest.Test(t, f) }
		var settleFP func() string
		if realtime {
			// no quiescence on real threads: wait until a cheap fingerprint of the node (store head, getter calls, sync
			// state) has not moved for 60 ms (at least 4 ms, at most 5 s), so that a loaded machine is not mistaken for an
			// idle node
			wait = func() {
				time.Sleep(4 * time.Millisecond)
				if settleFP == nil {
					return
				}
				last, same := settleFP(), 0
				for deadline := time.Now().Add(5 * time.Second); time.Now().Before(deadline) && same < 30; {
					time.Sleep(2 * time.Millisecond)
					if fp := settleFP(); fp == last {
						same++
					} else {
						last, same = fp, 0
					}
				}
			}
			runIn = func(f func(t *testing.T)) { f(t) }
		}
		runIn(func(t *testing.T) {
			bg := context.Background()
			chain := vh.NewChain("c", 1, N+8, time.Now().Add(-time.Duration(N+10)*time.Second), time.Second, uint64(mbt.Int(c, "epochLen")))
			if k := mbt.Int(c, "aheadFrom"); k > 1 {
				// a chain whose clock runs ahead of the local one from height k on: k is dated 8 s ahead (within the
				// allowed drift), k+1 16 s, k+2 24 s ... (beyond it, however recent the header before them is)
				now := time.Now()
				ts := make([]int64, N+8)
				for i := range ts {
					h := i + 1
					if h < k {
						ts[i] = now.Add(-time.Duration(k-h) * time.Second).UnixNano()
					} else {
						ts[i] = now.Add(time.Duration(8*(h-k+1)) * time.Second).UnixNano()
					}
				}
				chain = vh.NewChainTimes("c", 1, ts)
			}
			n := newNode(t, chain, 1, 1+id%3, hsync.WithBlockTime(time.Hour))
			byHCh := make(chan struct{}, 64)
			if mbt.Bool(c, "gateByHeight") {
				n.get.byHFn = func(gc gcall) (*vh.Header, error) {
					<-byHCh
					if h := chain.At(gc.H); h != nil {
						return h, nil
					}
					return nil, errors.New("no such height")
				}
			}
			headCh := make(chan string, 4)
			n.get.headFn = func(gc gcall, trusted *vh.Header) (*vh.Header, error) {
				if trusted == nil {
					return chain.At(1), nil
				}
				switch <-headCh {
				case "forgedNext":
					hd, _ := n.st.Head(bg)
					f := chain.Forge(hd.Height()+1, 777)
					return f, &header.VerifyError{Reason: vh.ErrType, SoftFailure: true}
				case "fresh":
					return chain.At(uint64(N)), nil
				case "adjacent": // an honest answer: the header right above the store head
					hd, _ := n.st.Head(bg)
					return chain.At(hd.Height() + 1), nil
				}
				return nil, errors.New("scripted: no head")
			}
			type asyncRes struct {
				err error
				h   *vh.Header
			}
			var asyncGossip []chan asyncRes
			var asyncHead []chan asyncRes // concurrent Head() callers: the first one performs the request, the others wait for its result
			serveCh := make(chan serveOutcome)
			type pendingReq struct{ from, to int }
			var cur *pendingReq
			lastServed := 0
			n.get.rangeFn = func(gc gcall, from *vh.Header) ([]*vh.Header, error) {
				n.get.mu.Lock()
				cur = &pendingReq{int(gc.H), int(gc.To)}
				n.get.mu.Unlock()
				o := <-serveCh
				n.get.mu.Lock()
				cur = nil
				n.get.mu.Unlock()
				switch o.kind {
				case "error":
					return nil, errors.New("scripted getter error")
				case "empty":
					return nil, nil
				case "nonadjacent":
					return chain.Range(from.Height()+2, gc.To+1), nil
				case "closed":
					return nil, context.Canceled
				case "cancelWrapped": // a peer-side failure that happens to wrap context.Canceled while the Syncer itself is alive
					return nil, fmt.Errorf("scripted getter error: stream reset: %w", context.Canceled)
				}
				end := from.Height() + 1 + uint64(o.k)
				if end > gc.To { // a contract-abiding getter never returns more than was asked for
					end = gc.To
				}
				out := chain.Range(from.Height()+1, end)
				n.get.mu.Lock()
				lastServed = len(out)
				n.get.mu.Unlock()
				return out, nil
			}
			if err := n.sy.Start(bg); err != nil {
				drift = append(drift, "start: "+err.Error())
				return
			}
			settleFP = func() string {
				hh := 0
				if hd, err := n.st.Head(bg); err == nil {
					hh = int(hd.Height())
				}
				n.get.mu.Lock()
				nc := len(n.get.calls)
				n.get.mu.Unlock()
				st := n.sy.State()
				return fmt.Sprint(hh, nc, st.ID, st.Height, st.Error != "", st.Finished())
			}
			wait()
			for i, st := range hist {
				step, _ := st.(map[string]any)
				e := mbt.Map(step, "ev")
				ev := SyncEv{Tr: id, I: i, E: mbt.Str(e, "e"), Kind: mbt.Str(e, "kind"), H: mbt.Int(e, "h"), Holes: []int{}, Orphans: []int{}, SyncWait: "skipped", Free: free, Rt: realtime}
				var bad *vh.Header
				func() {
					defer func() {
						if r := recover(); r != nil {
							ev.Panicked = true
						}
					}()
					switch ev.E {
					case "gossip":
						var hdr *vh.Header
						switch ev.Kind {
						case "valid", "stale":
							hdr = chain.At(uint64(ev.H))
						case "ahead": // the chain's own header, dated beyond the allowed clock drift: refused as from the future
							hdr = chain.At(uint64(ev.H))
							ev.Kind = "future"
						case "forged", "forgedFar":
							hdr = chain.Forge(uint64(ev.H), uint64(100+i))
						case "wrongchain":
							hdr = chain.At(uint64(ev.H)).Clone()
							hdr.Chain = "otherchain"
						case "future":
							hdr = chain.At(uint64(ev.H)).Clone()
							hdr.T = time.Now().Add(time.Hour).UnixNano()
						}
						if ev.Kind != "valid" && ev.Kind != "stale" {
							bad = hdr
						}
						ctx, cancel := context.WithTimeout(bg, time.Minute)
						ev.Res = errClass(n.sub.deliver(ctx, hdr))
						cancel()
					case "advance":
						time.Sleep(time.Duration(ev.H) * time.Hour)
					case "tailFail":
						// the operator moves SyncFromHeight to a height the node does not have, and the peers do not serve
						// single headers any more: the tail renewal of the next Head() call fails
						n.sy.Params.SyncFromHeight = uint64(ev.H)
						n.get.byHFn = func(gc gcall) (*vh.Header, error) { return nil, errors.New("scripted: peer disconnected") }
					case "gossipAsync": // a delivery that may block inside bifurcation (gated getter) or on the handler's lock
						hdr := chain.At(uint64(ev.H))
						ch := make(chan asyncRes, 1)
						asyncGossip = append(asyncGossip, ch)
						go func() {
							ctx, cancel := context.WithTimeout(bg, time.Hour)
							defer cancel()
							ch <- asyncRes{err: n.sub.deliver(ctx, hdr)}
						}()
					case "releaseByHeight":
						for j := 0; j < ev.H; j++ {
							byHCh <- struct{}{}
							wait()
						}
					case "collect", "collectAll": // every asynchronous delivery must have finished; count the accepted ones
						for _, ch := range asyncGossip {
							tmo := time.NewTimer(5 * time.Second) // real threads: generous, a loaded machine must not look like a hang
							select {
							case r := <-ch:
								if r.err == nil {
									ev.DupNil++
								}
							case <-tmo.C:
								ev.Res = "blocked"
							}
							tmo.Stop()
						}
						asyncGossip = nil
					case "headStart":
						ch := make(chan asyncRes, 1)
						asyncHead = append(asyncHead, ch)
						go func(ch chan asyncRes) {
							ctx, cancel := context.WithTimeout(bg, time.Hour)
							defer cancel()
							h, err := n.sy.Head(ctx)
							ch <- asyncRes{err: err, h: h}
						}(ch)
					case "headRelease":
						headCh <- ev.Kind
						wait()
						for _, ch := range asyncHead {
							select {
							case r := <-ch:
								if r.h != nil {
									if int(r.h.Height()) > ev.HeadRet {
										ev.HeadRet = int(r.h.Height())
									}
									if !chain.IsCanon(r.h) {
										ev.BadTarget = true
									}
								}
							default:
							}
						}
						asyncHead = nil
					case "serve":
						n.get.mu.Lock()
						out := cur != nil
						n.get.mu.Unlock()
						ev.Served = out
						if out {
							n.get.mu.Lock()
							lastServed = 0
							n.get.mu.Unlock()
							serveCh <- serveOutcome{k: ev.H, kind: ev.Kind}
						}
					}
				}()
				wait()
				if ev.E == "serve" && ev.Served {
					n.get.mu.Lock()
					ev.ServedN = lastServed
					n.get.mu.Unlock()
				}
				// observation.  On real threads there is no quiescence to wait for: a scan that finds the store in the middle
				// of an append (a hole, an orphan) is repeated, and only what persists for half a second is recorded.
				scan := func(lookup time.Duration) {
					ev.Head, ev.Tail, ev.Holes, ev.Orphans, ev.NonCanon = 0, 0, []int{}, []int{}, 0
					if hd, err := n.st.Head(bg); err == nil {
						ev.Head = int(hd.Height())
					}
					if tl, err := n.st.Tail(bg); err == nil {
						ev.Tail = int(tl.Height())
					}
					for h := 1; h <= N+2; h++ {
						ctx, cancel := context.WithTimeout(bg, lookup)
						got, err := n.st.GetByHeight(ctx, uint64(h))
						cancel()
						in := ev.Tail != 0 && h >= ev.Tail && h <= ev.Head
						if err != nil && in {
							ev.Holes = append(ev.Holes, h)
						}
						if err == nil && !in {
							ev.Orphans = append(ev.Orphans, h)
						}
						if err == nil && !chain.IsCanon(got) {
							ev.NonCanon++
						}
					}
				}
				if realtime {
					for try := 0; try < 50; try++ {
						scan(50 * time.Millisecond)
						if len(ev.Holes) == 0 && len(ev.Orphans) == 0 {
							break
						}
						time.Sleep(10 * time.Millisecond)
					}
				} else {
					scan(time.Millisecond)
				}
				if bad != nil {
					if _, err := n.st.Get(bg, bad.Hash()); err == nil {
						ev.BadStored = true
					}
				}
				for h := 1; h <= N+2; h++ { // the forged head a lying peer may have offered through Head()
					if _, err := n.st.Get(bg, chain.Forge(uint64(h), 777).Hash()); err == nil {
						ev.BadStored = true
					}
				}
				state := n.sy.State()
				ev.StateErr = state.Error != ""
				ev.Finished = state.Finished()
				ev.ToHeight = int(state.ToHeight)
				if bad != nil && state.ToHash.String() == bad.Hash().String() {
					ev.BadTarget = true
				}
				n.get.mu.Lock()
				if cur != nil {
					ev.Waiting, ev.ReqFrom, ev.ReqTo = true, cur.from, cur.to-1
				}
				n.get.mu.Unlock()
				if !ev.Waiting {
					ctx, cancel := context.WithTimeout(bg, time.Second)
					if err := n.sy.SyncWait(ctx); err != nil {
						ev.SyncWait = "err"
					} else {
						ev.SyncWait = "nil"
					}
					cancel()
				}
				evs = append(evs, ev)
				if nodrift {
					continue
				}
				if ev.Head != mbt.Int(step, "sh") || ev.Waiting != mbt.Bool(step, "wait") || ev.StateErr != mbt.Bool(step, "serr") ||
					(ev.Waiting && ev.ReqFrom != mbt.Int(step, "from")) || (ev.E == "serve" && !ev.Served) {
					if len(drift) == 0 { // the remaining events are still executed: the property layer judges every observation
						drift = append(drift, fmt.Sprintf("event %d %s: observed head=%d waiting=%v reqFrom=%d stateErr=%v served=%v; model %s",
							i, mbt.J(e), ev.Head, ev.Waiting, ev.ReqFrom, ev.StateErr, ev.Served, mbt.J(step)))
					}
				}
			}
			for j := 0; j < 32; j++ {
				select {
				case byHCh <- struct{}{}:
				default:
				}
			}
			select {
			case headCh <- "none":
			default:
			}
			wait()
			// unblock the loop if it is still waiting, then stop
			n.get.mu.Lock()
			out := cur != nil
			n.get.mu.Unlock()
			_ = n.sy.Stop(bg)
			if out {
				serveCh <- serveOutcome{kind: "closed"}
			}
			wait()
			_ = n.st.Stop(bg)
			wait()
		})
		for _, e := range evs {
			tw.Put(e)
		}
		res := mbt.Result{ID: id, Key: mbt.J(c["hist"]), NonTriv: len(hist) > 1, Verdict: "ok"}
		if len(drift) > 0 {
			res.Verdict, res.Detail = "drift", drift[0]
		}
		rw.Put(res)
	}
}
