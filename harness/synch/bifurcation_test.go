package synch

import (
	"context"
	"errors"
	"fmt"
	"sync"
	"testing"
	"testing/synctest"
	"time"

	header "github.com/celestiaorg/go-header"
	hsync "github.com/celestiaorg/go-header/sync"

	"verifharness/mbt"
	"verifharness/vh"
)

type BifObs struct {
	Res             string `json:"res"` // accepted | refused
	Class           string `json:"class"`
	Calls           []int  `json:"calls"`
	Prom            []int  `json:"prom"`
	HeadIsCandidate bool   `json:"headIsCandidate"`
	Hung            bool   `json:"hung"`
	Panicked        bool   `json:"panicked"`
	Msg             string `json:"msg,omitempty"`
}

type BifRec struct {
	Tr  int            `json:"tr"`
	In  map[string]any `json:"in"`
	Obs BifObs         `json:"obs"`
}

const subj = 10 // absolute height of the subjective head

func TestBifurcation(t *testing.T) {
	cases, rw, tw := openIO(t)
	defer rw.Close()
	defer tw.Close()
	for _, c := range cases {
		in := mbt.Map(c, "in")
		id := mbt.Int(c, "id")
		d := mbt.Int(in, "d")
		trust := map[[2]int]bool{}
		for _, p := range mbt.List(in, "trust") {
			ab := mbt.Ints(p)
			trust[[2]int{ab[0], ab[1]}] = true
		}
		forged := mbt.Bool(in, "forged")
		failAt := mbt.Int(in, "failAt")
		badMid := mbt.Int(in, "badMid")
		adjSoft := mbt.Bool(in, "adjSoft")
		// replay-only dimensions (the model's prediction does not depend on them):
		// via = "head": the candidate is the soft-failing answer of the getter's Head() to a stale Syncer.Head() call
		//               instead of a gossip delivery; fk = "notfound" / "deadline": the getter fails with header.ErrNotFound / with an error that wraps context.DeadlineExceeded;
		// failAll: every request from failAt on fails (peers that cannot serve the heights at all)
		via, fk, failAll := mbt.Str(in, "via"), mbt.Str(in, "fk"), mbt.Bool(in, "failAll")
		forge := func(chain *vh.Chain, h uint64, salt uint64) *vh.Header {
			f := chain.Forge(h, salt)
			if adjSoft {
				f.TypeRes = "bareSoft" // the type-level check itself reports a soft failure, even for an adjacent header
			}
			return f
		}
		rec := BifRec{Tr: id, In: in, Obs: BifObs{Calls: []int{}, Prom: []int{}}}
		synctest.Test(t, func(t *testing.T) {
			bg := context.Background()
			chain := vh.NewChain("c", 1, subj+d+3, time.Now().Add(-30*time.Minute), time.Second, 0)
			old := vh.Trust
			vh.Trust = func(a, b *vh.Header) bool { return trust[[2]int{int(a.H) - subj, int(b.H) - subj}] }
			defer func() { vh.Trust = old }()
			n := newNode(t, chain, subj, 64, hsync.WithBlockTime(time.Hour), hsync.WithTrustingPeriod(24*time.Hour))
			n.get.headFn = func(gcall, *vh.Header) (*vh.Header, error) { return nil, errors.New("no network head in this scenario") }
			n.get.byHFn = func(c gcall) (*vh.Header, error) {
				if c.N > 400 {
					return nil, errors.New("harness: request budget exhausted")
				}
				if failAt != 0 && (c.N+1 == failAt || (failAll && c.N+1 > failAt)) {
					if fk == "notfound" {
						return nil, fmt.Errorf("height %d: %w", c.H, header.ErrNotFound)
					}
					if fk == "deadline" { // the peers' own request timed out; the caller's context is alive
						time.Sleep(time.Second)
						return nil, fmt.Errorf("height %d: %w", c.H, context.DeadlineExceeded)
					}
					return nil, errors.New("scripted getter failure")
				}
				if via != "head" && via != "head2" { // (a Head() request is capped by NetworkHeadRequestTimeout: there the request budget bounds a runaway search)
					time.Sleep(time.Second) // virtual: a search that never ends runs into the caller's deadline
				}
				if badMid != 0 && int(c.H) == subj+badMid {
					return forge(chain, c.H, 3), nil
				}
				if h := chain.At(c.H); h != nil {
					return h, nil
				}
				return nil, errors.New("no such height")
			}
			if err := n.sy.Start(bg); err != nil {
				rec.Obs.Msg = "start: " + err.Error()
				return
			}
			synctest.Wait()
			n.get.resetLog()
			var pmu sync.Mutex
			hsync.VerifHook = func(_ context.Context, point string, args ...uint64) {
				if point == "setLocalHead.enter" {
					pmu.Lock()
					rec.Obs.Prom = append(rec.Obs.Prom, int(args[0])-subj)
					pmu.Unlock()
				}
			}
			defer func() { hsync.VerifHook = nil }()
			cand := chain.At(uint64(subj + d))
			if forged {
				cand = forge(chain, uint64(subj+d), 1)
			}
			done := make(chan error, 1)
			gate2 := make(chan struct{})
			if via == "head" || via == "head2" {
				time.Sleep(4 * time.Hour) // the subjective head is no longer recent (recency = 3 x blockTime) (not expired): Head() asks the network
				synctest.Wait()
				n.get.resetLog()
				n.get.headFn = func(_ gcall, trusted *vh.Header) (*vh.Header, error) {
					if trusted == nil {
						return nil, errors.New("unexpected untrusted head request")
					}
					if via == "head2" {
						<-gate2 // until the second caller has joined the in-flight request
					}
					if err := header.Verify(trusted, cand); err != nil {
						var ve *header.VerifyError
						if errors.As(err, &ve) && ve.SoftFailure {
							return cand, err // what p2p.Exchange.Head does with a soft-failing answer of a tracked peer
						}
						return nil, header.ErrNotFound
					}
					return cand, nil
				}
			}
			go func() {
				defer func() {
					if r := recover(); r != nil {
						rec.Obs.Panicked = true
						done <- fmt.Errorf("panic: %v", r)
					}
				}()
				ctx, cancel := context.WithTimeout(bg, time.Hour)
				defer cancel()
				if via == "head" || via == "head2" {
					hd, err := n.sy.Head(ctx)
					if err == nil && (hd == nil || hd.Hash().String() != cand.Hash().String()) {
						err = errors.New("Head() did not adopt the candidate")
					}
					done <- err
					return
				}
				done <- n.sub.deliver(ctx, cand)
			}()
			if via == "head2" {
				// a second caller shares the request of the first one: it must come to the same verdict
				synctest.Wait()
				go func() {
					ctx, cancel := context.WithTimeout(bg, time.Hour)
					defer cancel()
					_, _ = n.sy.Head(ctx)
				}()
				synctest.Wait()
				close(gate2)
			}
			synctest.Wait()
			var err error
			finished := false
			select {
			case err = <-done:
				finished = true
			default:
				time.Sleep(15 * time.Minute) // every getter call takes one virtual second; the request bound is far below this
				synctest.Wait()
				select {
				case err = <-done:
					finished = true
				default:
				}
			}
			if !finished {
				rec.Obs.Hung = true
				time.Sleep(2 * time.Hour) // the delivery's context ends
				synctest.Wait()
				select {
				case err = <-done:
				default:
				}
			}
			hsync.VerifHook = nil
			rec.Obs.Res = "refused"
			if err == nil {
				rec.Obs.Res = "accepted"
			} else {
				rec.Obs.Msg = err.Error()
				if len(rec.Obs.Msg) > 100 {
					rec.Obs.Msg = rec.Obs.Msg[:100]
				}
			}
			rec.Obs.Class = errClass(err)
			for _, gc := range n.get.callsOf("GetByHeight") {
				rec.Obs.Calls = append(rec.Obs.Calls, int(gc.H)-subj)
			}
			if via == "head2" {
				// two searches ran one after the other: their request and promotion logs are not compared, only the verdicts
				rec.Obs.Calls = []int{}
				pmu.Lock()
				rec.Obs.Prom = nil
				pmu.Unlock()
			}
			// the candidate's own promotion (after acceptance) is not an intermediate
			pmu.Lock()
			var prom []int
			for _, p := range rec.Obs.Prom {
				if p != d {
					prom = append(prom, p)
				}
			}
			if prom == nil {
				prom = []int{}
			}
			rec.Obs.Prom = prom
			pmu.Unlock()
			// what the Syncer now considers its head, without handing it the candidate again
			n.get.headFn = func(gcall, *vh.Header) (*vh.Header, error) { return nil, errors.New("no network head any more") }
			hctx, hcancel := context.WithTimeout(bg, time.Second)
			if hd, herr := n.sy.Head(hctx); herr == nil && hd != nil {
				rec.Obs.HeadIsCandidate = hd.Hash().String() == cand.Hash().String()
			}
			hcancel()
			n.stop()
			synctest.Wait()
		})
		tw.Put(rec)
		res := mbt.Result{ID: id, Key: mbt.J(in), NonTriv: len(rec.Obs.Calls) > 0, Verdict: "ok"}
		want := mbt.Map(c, "predicted")
		if via == "head2" {
			if rec.Obs.Res != mbt.Str(want, "res") {
				res.Verdict, res.Detail = "drift", fmt.Sprintf("in=%s observed %s, model %s", mbt.J(in), mbt.J(rec.Obs), mbt.J(want))
			}
		} else if rec.Obs.Res != mbt.Str(want, "res") || mbt.J(rec.Obs.Calls) != mbt.J(mbt.Ints(want["calls"])) || mbt.J(rec.Obs.Prom) != mbt.J(mbt.Ints(want["prom"])) {
			res.Verdict, res.Detail = "drift", fmt.Sprintf("in=%s observed %s, model %s", mbt.J(in), mbt.J(rec.Obs), mbt.J(want))
		}
		rw.Put(res)
	}
}
