package synch

import (
	"context"
	"errors"
	"fmt"
	"sync"
	"testing"
	"testing/synctest"
	"time"

	hsync "github.com/celestiaorg/go-header/sync"

	"verifharness/mbt"
	"verifharness/vh"
)

// HeadStep is one recorded step of a Syncer.Head behaviour (SyncerHeadTrace.tla).
type HeadStep struct {
	Tr          int    `json:"tr"`
	I           int    `json:"i"`
	Op          string `json:"op"`
	Kind        string `json:"kind"`
	K           int    `json:"k"`
	Clock       int    `json:"clock"`
	SubBefore   int    `json:"subBefore"` // subjective head height (= time) before the step, 0 = empty
	Ret         int    `json:"ret"`       // returned height, 0 = error
	Err         string `json:"err,omitempty"`
	Calls       int    `json:"calls"`       // getter Head requests during the step
	Trusted     []int  `json:"trusted"`     // WithTrustedHead height of each request, 0 = none
	MaxInflight int    `json:"maxInflight"` // highest number of getter Head requests in flight at once
	Results     []int  `json:"results"`     // concurrent callers: every returned height
	SubAfter    int    `json:"subAfter"`
	RT          int    `json:"rt"`
	TP          int    `json:"tp"`
	Started     bool   `json:"started"`
}

const htick = time.Minute

func TestSyncerHead(t *testing.T) {
	cases, rw, tw := openIO(t)
	defer rw.Close()
	defer tw.Close()
	for _, c := range cases {
		id := mbt.Int(c, "id")
		rt, tp := mbt.Int(c, "rt"), mbt.Int(c, "tp")
		hist := mbt.List(c, "hist")
		var steps []HeadStep
		var drift []string
		synctest.Test(t, func(t *testing.T) {
			bg := context.Background()
			base := time.Now().Add(-htick) // clock 1 = now
			times := make([]int64, 64)
			for i := range times {
				times[i] = base.Add(time.Duration(i+1) * htick).UnixNano()
			}
			chain := vh.NewChainTimes("c", 1, times)
			opts := []hsync.Option{hsync.WithBlockTime(htick), hsync.WithRecencyThreshold(time.Duration(rt) * htick),
				hsync.WithTrustingPeriod(time.Duration(tp) * htick), hsync.WithPruningWindow(1000 * time.Hour)}
			if mbt.Bool(c, "optRev") {
				// variant: the same parameters given in the opposite order (what is configured does not depend on it)
				for i, j := 0, len(opts)-1; i < j; i, j = i+1, j-1 {
					opts[i], opts[j] = opts[j], opts[i]
				}
			}
			n := newNode(t, chain, 0, 1, opts...)
			clock, sub, started := 1, 0, false
			kind := ""
			lastX := 0
			errFlavour := 0
			hold := mbt.Bool(c, "holdSync") // variant: range requests of the sync loop hang, learned heads stay pending
			release := make(chan struct{})
			if hold {
				n.get.rangeFn = func(gc gcall, from *vh.Header) ([]*vh.Header, error) {
					<-release
					return n.get.honestRange(from.Height()+1, gc.To)
				}
			}
			n.get.headFn = func(gc gcall, trusted *vh.Header) (*vh.Header, error) {
				s := sub
				if trusted != nil {
					s = int(trusted.Height())
				}
				x := 0
				switch kind {
				case "fresh":
					x = clock
				case "stale":
					x = 1
					if clock > rt+1 {
						x = clock - rt - 1
					}
				case "expired":
					if clock > tp+1 {
						x = clock - tp - 1
					}
				case "lower":
					x = 1
					if s > 1 {
						x = s - 1
					}
				}
				if x == 0 {
					// the failure comes in three flavours (same prediction): a plain error, and the two an Exchange produces
					// when the request ran into its own timeout or was cancelled — whoever shares the request shares that
					// failure, a caller whose own context is still alive included
					switch errFlavour % 3 {
					case 1:
						return nil, fmt.Errorf("scripted: head request timed out: %w", context.DeadlineExceeded)
					case 2:
						return nil, fmt.Errorf("scripted: head request cancelled: %w", context.Canceled)
					}
					return nil, errors.New("scripted: trusted peers unavailable")
				}
				lastX = x
				return chain.At(uint64(x)), nil
			}
			for i, st := range hist {
				step, _ := st.(map[string]any)
				op := mbt.Str(step, "op")
				kind = mbt.Str(step, "kind")
				errFlavour = id + i
				k := mbt.Int(step, "k")
				rec := HeadStep{Tr: id, I: i, Op: op, Kind: kind, K: k, Clock: clock, SubBefore: sub, RT: rt, TP: tp, Trusted: []int{}, Results: []int{}, Started: started}
				n.get.resetLog()
				n.get.mu.Lock()
				n.get.maxInfl = 0
				n.get.mu.Unlock()
				switch op {
				case "advance":
					d := mbt.Int(step, "d")
					time.Sleep(time.Duration(d) * htick)
					clock += d
					rec.Clock = clock
				case "gossip":
					ctx, cancel := context.WithTimeout(bg, time.Second)
					err := n.sub.deliver(ctx, chain.At(uint64(clock)))
					cancel()
					if err != nil {
						rec.Err = err.Error()
					}
					if err == nil {
						sub = clock
					}
				case "head", "heads":
					if !started {
						ctx, cancel := context.WithTimeout(bg, 30*time.Second)
						err := n.sy.Start(ctx)
						cancel()
						if err == nil {
							started = true
							rec.Ret = lastX // the adopted head (it may still be pending while the first sync runs)
							sub = rec.Ret
						} else {
							rec.Err = err.Error()
						}
						rec.K = 1
						break
					}
					callers := 1
					if op == "heads" {
						callers = k
					}
					type out struct {
						h   int
						err error
					}
					outs := make([]out, callers)
					var wg sync.WaitGroup
					gate := make(chan struct{}, 16)
					if callers > 1 {
						n.get.mu.Lock()
						n.get.gate, n.get.gateKind = gate, "Head"
						n.get.mu.Unlock()
					}
					for ci := 0; ci < callers; ci++ {
						wg.Add(1)
						go func(ci int) {
							defer wg.Done()
							ctx, cancel := context.WithTimeout(bg, 30*time.Second)
							defer cancel()
							h, err := n.sy.Head(ctx)
							if err == nil && h != nil {
								outs[ci].h = int(h.Height())
							}
							outs[ci].err = err
						}(ci)
						synctest.Wait() // caller ci is parked (in the getter, on the single-flight channel) or done
					}
					if callers > 1 {
						for j := 0; j < 16; j++ {
							gate <- struct{}{}
						}
						n.get.mu.Lock()
						n.get.gate = nil
						n.get.mu.Unlock()
					}
					wg.Wait()
					rec.Ret = outs[0].h
					if outs[0].err != nil {
						rec.Err = outs[0].err.Error()
					}
					for _, o := range outs {
						rec.Results = append(rec.Results, o.h)
					}
					if rec.Ret != 0 {
						sub = rec.Ret
					}
				}
				synctest.Wait()
				for _, gc := range n.get.callsOf("Head") {
					rec.Calls++
					th := 0
					if gc.Trusted {
						th = int(gc.TrustedH)
					}
					rec.Trusted = append(rec.Trusted, th)
				}
				n.get.mu.Lock()
				rec.MaxInflight = n.get.maxInfl
				n.get.mu.Unlock()
				rec.SubAfter = sub
				if len(rec.Err) > 120 {
					rec.Err = rec.Err[:120]
				}
				steps = append(steps, rec)
				pred := mbt.Map(step, "pred")
				if op == "head" || op == "heads" {
					if rec.Ret != mbt.Int(pred, "ret") || rec.Calls != mbt.Int(pred, "calls") {
						drift = append(drift, fmt.Sprintf("step %d %s(%s): observed ret=%d calls=%d trusted=%v, model %s", i, op, kind, rec.Ret, rec.Calls, rec.Trusted, mbt.J(pred)))
						break
					}
				}
			}
			close(release)
			synctest.Wait()
			n.stop()
			synctest.Wait()
		})
		for _, s := range steps {
			tw.Put(s)
		}
		res := mbt.Result{ID: id, Key: mbt.J(c["hist"]), NonTriv: len(hist) > 1, Verdict: "ok"}
		if len(drift) > 0 {
			res.Verdict, res.Detail = "drift", drift[0]
		}
		rw.Put(res)
	}
}

type ctxKey struct{}

// TestHeadRace: a Head() caller that learned an adjacent head is parked between syncStore.Append's load of its head
// pointer and the adjacency check (verif yield point); meanwhile gossip teaches a higher head and the sync loop
// stores it; the parked caller then resumes.  Syncer.Head() is sampled before and after (C19: never decreases).
func TestHeadRace(t *testing.T) {
	_, rw, tw := openIO(t)
	defer rw.Close()
	defer tw.Close()
	for run := 0; run < 6; run++ {
		rec := HeadStep{Tr: 500000 + run, I: 0, Op: "headseq", Trusted: []int{}, Results: []int{}}
		synctest.Test(t, func(t *testing.T) {
			bg := context.Background()
			base := time.Now().Add(-30 * time.Second)
			times := make([]int64, 16)
			for i := range times {
				times[i] = base.Add(time.Duration(i) * time.Second).UnixNano()
			}
			chain := vh.NewChainTimes("c", 1, times)
			far := 3 + run%3 // the head gossip teaches while the Head() caller is parked
			n := newNode(t, chain, 1, 1+run%2, hsync.WithBlockTime(time.Second), hsync.WithRecencyThreshold(time.Minute),
				hsync.WithTrustingPeriod(time.Hour), hsync.WithPruningWindow(1000*time.Hour))
			if err := n.sy.Start(bg); err != nil {
				rec.Err = "start: " + err.Error()
				return
			}
			synctest.Wait()
			time.Sleep(2 * time.Minute) // the subjective head (1) is stale now: the next Head() asks the network
			n.get.headFn = func(gcall, *vh.Header) (*vh.Header, error) { return chain.At(2), nil }
			gate := make(chan struct{})
			parked := false
			hsync.VerifHook = func(ctx context.Context, point string, args ...uint64) {
				if point == "syncStore.Append.afterHeadLoad" && ctx != nil && ctx.Value(ctxKey{}) != nil && !parked {
					parked = true
					<-gate
				}
			}
			defer func() { hsync.VerifHook = nil }()
			done := make(chan int, 1)
			go func() {
				ctx, cancel := context.WithTimeout(context.WithValue(bg, ctxKey{}, 1), time.Hour)
				defer cancel()
				h, err := n.sy.Head(ctx)
				if err != nil || h == nil {
					done <- 0
					return
				}
				done <- int(h.Height())
			}()
			synctest.Wait() // the caller learned header 2 and is parked inside syncStore.Append
			ctx, cancel := context.WithTimeout(bg, time.Minute)
			gerr := n.sub.deliver(ctx, chain.At(uint64(far)))
			cancel()
			synctest.Wait() // the sync loop fetched and stored 2..far
			sample := func() int {
				n.get.headFn = func(gcall, *vh.Header) (*vh.Header, error) { return nil, errors.New("no network head now") }
				ctx, cancel := context.WithTimeout(bg, time.Minute)
				defer cancel()
				h, err := n.sy.Head(ctx)
				if err != nil || h == nil {
					return 0
				}
				return int(h.Height())
			}
			rec.Results = append(rec.Results, sample())
			close(gate)
			synctest.Wait()
			rec.Results = append(rec.Results, <-done)
			rec.Results = append(rec.Results, sample())
			// and the syncer must still be able to move on
			ctx, cancel = context.WithTimeout(bg, time.Minute)
			_ = n.sub.deliver(ctx, chain.At(uint64(far+1)))
			cancel()
			synctest.Wait()
			rec.Results = append(rec.Results, sample())
			if gerr != nil {
				rec.Err = "gossip: " + gerr.Error()
			}
			rec.Started = parked
			hsync.VerifHook = nil
			n.stop()
			synctest.Wait()
		})
		tw.Put(rec)
		rw.Put(mbt.Result{ID: rec.Tr, Key: fmt.Sprint(rec.Tr), NonTriv: true, Verdict: "ok"})
	}
	// third kind: a Head() caller is parked between the two reads of localHead (pending cache, store head) while the
	// sync loop moves the pending head into the store and cleans the cache; what it returns once released is not below
	// what Head() had returned before.
	for run := 0; run < 4; run++ {
		rec := HeadStep{Tr: 500200 + run, I: 0, Op: "headseq", Trusted: []int{}, Results: []int{}}
		synctest.Test(t, func(t *testing.T) {
			bg := context.Background()
			base := time.Now().Add(-30 * time.Second)
			times := make([]int64, 16)
			for i := range times {
				times[i] = base.Add(time.Duration(i) * time.Second).UnixNano()
			}
			chain := vh.NewChainTimes("c", 1, times)
			far := 3 + run%3
			n := newNode(t, chain, 1, 1+run%2, hsync.WithBlockTime(time.Second), hsync.WithRecencyThreshold(time.Hour),
				hsync.WithTrustingPeriod(2*time.Hour), hsync.WithPruningWindow(1000*time.Hour))
			n.get.headFn = func(gcall, *vh.Header) (*vh.Header, error) { return nil, errors.New("no network head now") }
			release := make(chan struct{})
			n.get.rangeFn = func(gc gcall, from *vh.Header) ([]*vh.Header, error) {
				<-release
				return n.get.honestRange(from.Height()+1, gc.To)
			}
			if err := n.sy.Start(bg); err != nil {
				rec.Err = "start: " + err.Error()
				return
			}
			synctest.Wait()
			sample := func(ctx context.Context) int {
				ctx, cancel := context.WithTimeout(ctx, time.Minute)
				defer cancel()
				h, err := n.sy.Head(ctx)
				if err != nil || h == nil {
					return 0
				}
				return int(h.Height())
			}
			ctx, cancel := context.WithTimeout(bg, time.Minute)
			if err := n.sub.deliver(ctx, chain.At(uint64(far))); err != nil {
				rec.Err = "gossip: " + err.Error()
			}
			cancel()
			synctest.Wait() // the head is in the pending cache, the sync loop waits for the held range request
			rec.Results = append(rec.Results, sample(bg))
			gate := make(chan struct{})
			hsync.VerifHook = func(ctx context.Context, point string, args ...uint64) {
				if point == "localHead.betweenReads" && ctx != nil && ctx.Value(ctxKey{}) != nil && !rec.Started {
					rec.Started = true
					<-gate
				}
			}
			defer func() { hsync.VerifHook = nil }()
			done := make(chan int, 1)
			go func() { done <- sample(context.WithValue(bg, ctxKey{}, 1)) }()
			synctest.Wait() // parked between the two reads
			close(release)
			synctest.Wait() // the sync loop stored the gap and the pending head and cleaned the cache
			close(gate)
			synctest.Wait()
			rec.Results = append(rec.Results, <-done)
			rec.Results = append(rec.Results, sample(bg))
			hsync.VerifHook = nil
			n.stop()
			synctest.Wait()
		})
		tw.Put(rec)
		rw.Put(mbt.Result{ID: rec.Tr, Key: fmt.Sprint(rec.Tr), NonTriv: true, Verdict: "ok"})
	}
	// second kind: gossip teaches a non-adjacent head (kept in the pending set); the sync loop is parked at the same
	// yield point in every Append it makes while it fills the gap and applies the pending headers, and Head() is
	// sampled at each stop: what the Syncer has once returned as its head stays its head while it moves into the store.
	for run := 0; run < 6; run++ {
		rec := HeadStep{Tr: 500100 + run, I: 0, Op: "headseq", Trusted: []int{}, Results: []int{}}
		synctest.Test(t, func(t *testing.T) {
			bg := context.Background()
			base := time.Now().Add(-30 * time.Second)
			times := make([]int64, 16)
			for i := range times {
				times[i] = base.Add(time.Duration(i) * time.Second).UnixNano()
			}
			chain := vh.NewChainTimes("c", 1, times)
			far := 3 + run%3
			n := newNode(t, chain, 1, 1+run%2, hsync.WithBlockTime(time.Second), hsync.WithRecencyThreshold(time.Hour),
				hsync.WithTrustingPeriod(2*time.Hour), hsync.WithPruningWindow(1000*time.Hour))
			n.get.headFn = func(gcall, *vh.Header) (*vh.Header, error) { return nil, errors.New("no network head now") }
			if run >= 3 {
				// the gap arrives in two partial answers
				n.get.rangeFn = func(gc gcall, from *vh.Header) ([]*vh.Header, error) {
					return n.get.honestRange(from.Height()+1, from.Height()+2)
				}
			}
			parkedCh := make(chan chan struct{}, 8)
			hsync.VerifHook = func(ctx context.Context, point string, args ...uint64) {
				if point == "syncStore.Append.afterHeadLoad" && (ctx == nil || ctx.Value(ctxKey{}) == nil) {
					g := make(chan struct{})
					parkedCh <- g
					<-g
				}
			}
			defer func() { hsync.VerifHook = nil }()
			if err := n.sy.Start(bg); err != nil {
				rec.Err = "start: " + err.Error()
				return
			}
			sample := func() int {
				ctx, cancel := context.WithTimeout(context.WithValue(bg, ctxKey{}, 1), time.Minute)
				defer cancel()
				h, err := n.sy.Head(ctx)
				if err != nil || h == nil {
					return 0
				}
				return int(h.Height())
			}
			drainParked := func() {
				for k := 0; k < 32; k++ {
					synctest.Wait()
					select {
					case g := <-parkedCh:
						rec.Started = true
						rec.Results = append(rec.Results, sample())
						close(g)
					default:
						return
					}
				}
			}
			drainParked()
			rec.Results = append(rec.Results, sample())
			ctx, cancel := context.WithTimeout(context.WithValue(bg, ctxKey{}, 1), time.Minute)
			gerr := n.sub.deliver(ctx, chain.At(uint64(far)))
			cancel()
			if gerr != nil {
				rec.Err = "gossip: " + gerr.Error()
			}
			drainParked()
			rec.Results = append(rec.Results, sample())
			hsync.VerifHook = nil
			n.stop()
			synctest.Wait()
		})
		tw.Put(rec)
		rw.Put(mbt.Result{ID: rec.Tr, Key: fmt.Sprint(rec.Tr), NonTriv: true, Verdict: "ok"})
	}
}
