package synch

// TestSyncExplore: seeded random walks over the real Syncer's own schedule space.  The processes are one gossip
// delivery at a time (valid heads with gaps, now and then a forged or foreign one), up to two Head() callers on a
// stale subjective head, and the Syncer's own sync loop; the gates are the verif yield points of package sync
// (setLocalHead.enter, setLocalHead.beforePendingAdd, syncStore.Append.afterHeadLoad, doSync.begin/end) and every
// call of the (honest) getter.  At each step one parked goroutine or one not-yet-made call is picked by the seeded
// generator and released; the bubble runs to quiescence; the store and State() are observed.  Judged by
// SyncerTrace.tla only (no model prediction): nothing unverified is stored or targeted, the store stays one gap-free
// canonical run, its head never recedes, and once everything is released the newest learned head is reached.
//
// Goroutines waiting on a sync.Mutex are not durably blocked for synctest, so the generator never lets two takers
// of the Syncer's incoming-head mutex overlap: one gossip delivery or one Head() call at a time, against the sync loop.

import (
	"context"
	"fmt"
	"math/rand"
	"os"
	"sort"
	"strconv"
	"strings"
	"sync"
	"testing"
	"testing/synctest"
	"time"

	"github.com/celestiaorg/go-header"
	"github.com/celestiaorg/go-header/store"
	hsync "github.com/celestiaorg/go-header/sync"

	"verifharness/mbt"
	"verifharness/vh"
)

type procKey struct{}

type xsched struct {
	mu     sync.Mutex
	gates  map[string]chan struct{}
	at     map[string]string
	enters map[string]int // per process: how many times it has entered setLocalHead
	holds  map[string]bool // per process: it is inside incomingNetworkHead's critical section (told by the code itself)
	pass   bool
}

// parkedOutsideMutex: proc is parked at a gate and does not hold the incoming-head mutex (Head() applies the head it
// learned before it takes the mutex; the code reports entering and leaving the critical section through two points).
func (s *xsched) parkedOutsideMutex(proc string) bool {
	s.mu.Lock()
	defer s.mu.Unlock()
	_, ok := s.gates[proc]
	return ok && !s.holds[proc]
}

func (s *xsched) hook(ctx context.Context, point string, _ ...uint64) {
	if point == "localHead.betweenReads" {
		return // used by the hand-built Head() schedules only (it is reached with and without the incoming-head mutex held)
	}
	proc := "L" // the sync loop and everything else without a name
	if ctx != nil {
		if v, ok := ctx.Value(procKey{}).(string); ok {
			proc = v
		}
	}
	if point == "incomingNetworkHead.locked" || point == "incomingNetworkHead.released" {
		s.mu.Lock()
		if s.holds == nil {
			s.holds = map[string]bool{}
		}
		s.holds[proc] = point == "incomingNetworkHead.locked"
		s.mu.Unlock()
		return // bookkeeping only, never a gate
	}
	s.mu.Lock()
	if point == "setLocalHead.enter" {
		if s.enters == nil {
			s.enters = map[string]int{}
		}
		s.enters[proc]++
	}
	if s.pass {
		s.mu.Unlock()
		return
	}
	for s.gates[proc] != nil {
		proc += "'"
	}
	ch := make(chan struct{})
	s.gates[proc] = ch
	s.at[proc] = point
	s.mu.Unlock()
	<-ch
}

func (s *xsched) parked() []string {
	s.mu.Lock()
	defer s.mu.Unlock()
	var out []string
	for p := range s.gates {
		out = append(out, p)
	}
	sort.Strings(out)
	return out
}

func (s *xsched) release(proc string) {
	s.mu.Lock()
	ch := s.gates[proc]
	delete(s.gates, proc)
	delete(s.at, proc)
	s.mu.Unlock()
	if ch != nil {
		close(ch)
	}
	synctest.Wait()
}

func (s *xsched) drain() {
	for i := 0; i < 1000; i++ {
		s.mu.Lock()
		s.pass = true
		var chs []chan struct{}
		for p, ch := range s.gates {
			chs = append(chs, ch)
			delete(s.gates, p)
			delete(s.at, p)
		}
		s.mu.Unlock()
		if len(chs) == 0 {
			return
		}
		for _, ch := range chs {
			close(ch)
		}
		synctest.Wait()
	}
}

func syncExploreOnce(t *testing.T, id int, rnd *rand.Rand) (evs []SyncEv, cfg string) {
	N := 6 + rnd.Intn(7)
	// the gossip script: increasing valid heights with gaps, some bad ones in between
	type offer struct {
		kind string
		h    int
	}
	var script []offer
	top := 1
	// every fourth run: the Store's Append is in step with its Head for some calls and lags (as the real one) for others
	stepMode := id%4 == 3
	for top < N && len(script) < 6 {
		switch r := rnd.Intn(10); {
		case r < 6:
			if stepMode && rnd.Intn(10) < 7 {
				top++ // mostly adjacent heads: they go to the Store directly
			} else {
				top += 1 + rnd.Intn(3)
			}
			if top > N {
				top = N
			}
			script = append(script, offer{"valid", top})
		case r < 7:
			script = append(script, offer{"forged", top + 1}) // adjacent to the highest offered head: fails hard
		case r < 8 && top > 1:
			// the highest head offered so far again, as it is or forged: known by now, must be refused whatever the
			// sync loop is doing with it at that moment
			script = append(script, offer{[]string{"stale", "forgedSame"}[rnd.Intn(2)], top})
		case r < 9 && top > 1:
			// a valid sibling of a header the node knows already (same height, same parent, different content):
			// known, must be refused
			script = append(script, offer{"fork", 2 + rnd.Intn(top-1)})
		case r == 9 && top > 1 && rnd.Intn(2) == 0:
			// a header just above the highest offered head that is dated a few seconds BEFORE it (time must not go
			// backwards along the chain), or — when there is room — a header below it that is dated AFTER every
			// header of the chain (a known height stays known whatever its timestamp says)
			if top > 2 && rnd.Intn(2) == 0 {
				script = append(script, offer{"lowerLate", 2 + rnd.Intn(top-2)})
			} else {
				script = append(script, offer{"olderAbove", top + 1})
			}
		default:
			script = append(script, offer{"wrongchain", top + 1 + rnd.Intn(2)})
		}
	}
	nHead := rnd.Intn(4)
	cfg = fmt.Sprintf("n=%d script=%v headCallers=%d step=%v", N, script, nHead, stepMode)
	synctest.Test(t, func(t *testing.T) {
		bg := context.Background()
		chain := vh.NewChain("c", 1, N+8, time.Now().Add(-time.Duration(N+10)*time.Second), time.Second, 0)
		if stepMode {
			var smu sync.Mutex
			srnd := rand.New(rand.NewSource(int64(id)*7919 + 13))
			storeWrap = func(st *store.Store[*vh.Header]) header.Store[*vh.Header] {
				return &stepStore{Store: st, inStep: func() bool {
					smu.Lock()
					defer smu.Unlock()
					return srnd.Intn(2) == 0
				}}
			}
		}
		n := newNode(t, chain, 1, 1+id%3, hsync.WithBlockTime(time.Hour))
		storeWrap = nil
		sc := &xsched{gates: map[string]chan struct{}{}, at: map[string]string{}, enters: map[string]int{}, holds: map[string]bool{}}
		var learnedMu sync.Mutex
		learned := 1 // highest valid head offered so far (by gossip or as a Head() answer)
		n.get.headFn = func(_ gcall, trusted *vh.Header) (*vh.Header, error) {
			if trusted == nil {
				return chain.At(1), nil
			}
			// an honest answer that verifies directly: the header right above the asker's trusted head
			h := chain.At(trusted.Height() + 1)
			if h == nil || int(h.Height()) > N {
				return trusted, nil
			}
			learnedMu.Lock()
			if int(h.Height()) > learned {
				learned = int(h.Height())
			}
			learnedMu.Unlock()
			return h, nil
		}
		if err := n.sy.Start(bg); err != nil {
			return
		}
		synctest.Wait()
		if nHead > 0 {
			time.Sleep(4 * time.Hour) // the subjective head is no longer recent: Head() asks the getter
			synctest.Wait()
		}
		hsync.VerifHook = sc.hook
		n.get.pre = func(ctx context.Context, kind string) { sc.hook(ctx, "getter."+kind) }
		defer func() { hsync.VerifHook = nil; n.get.pre = nil }()

		var mu sync.Mutex
		type verdict struct {
			kind string
			h    int
			res  string
		}
		var done []verdict
		gossipBusy, headBusy, headProc := false, false, ""
		var lastBad *vh.Header
		headRet := 0
		nextOffer, headsLeft := 0, nHead
		observe := func(i int, e, kind string, h int, free bool) SyncEv {
			ev := SyncEv{Tr: id, I: i, E: e, Kind: kind, H: h, Holes: []int{}, Orphans: []int{}, SyncWait: "skipped", Free: free}
			if hd, err := n.st.Head(bg); err == nil {
				ev.Head = int(hd.Height())
			}
			if tl, err := n.st.Tail(bg); err == nil {
				ev.Tail = int(tl.Height())
			}
			for x := 1; x <= N+2; x++ {
				ctx, cancel := context.WithTimeout(bg, time.Millisecond)
				got, err := n.st.GetByHeight(ctx, uint64(x))
				cancel()
				in := ev.Tail != 0 && x >= ev.Tail && x <= ev.Head
				if err != nil && in {
					ev.Holes = append(ev.Holes, x)
				}
				if err == nil && !in {
					ev.Orphans = append(ev.Orphans, x)
				}
				if err == nil && !chain.IsCanon(got) {
					ev.NonCanon++
				}
			}
			mu.Lock()
			bad := lastBad
			ev.HeadRet = headRet
			mu.Unlock()
			state := n.sy.State()
			if bad != nil {
				if _, err := n.st.Get(bg, bad.Hash()); err == nil {
					ev.BadStored = true
				}
				if state.ToHash.String() == bad.Hash().String() {
					ev.BadTarget = true
				}
			}
			ev.StateErr = state.Error != ""
			ev.Finished = state.Finished()
			ev.ToHeight = int(state.ToHeight)
			return ev
		}
		step := 0
		for ; step < 400; step++ {
			type act struct{ kind, proc string }
			var acts []act
			mu.Lock()
			gBusy, hBusy, hProc := gossipBusy, headBusy, headProc
			mu.Unlock()
			// Head() applies the head it learned outside the incoming-head mutex and takes the mutex only afterwards: while
			// its caller is parked in that first part a gossip delivery may run (and a Head() call may start while a
			// delivery is parked: it parks at its own first gate).  What must not happen in a bubble is a goroutine waiting
			// for the mutex: the Head() caller is not released while a delivery is in flight.
			hOutside := hBusy && sc.parkedOutsideMutex(hProc)
			for _, p := range sc.parked() {
				if gBusy && strings.HasPrefix(p, "H") {
					continue
				}
				acts = append(acts, act{"release", p}, act{"release", p})
			}
			if !gBusy && nextOffer < len(script) && (!hBusy || hOutside) {
				acts = append(acts, act{"gossip", ""})
			}
			if !hBusy && headsLeft > 0 {
				acts = append(acts, act{"head", ""})
			}
			if len(acts) == 0 {
				break
			}
			a := acts[rnd.Intn(len(acts))]
			ename, ekind, eh := "step", "", 0
			switch a.kind {
			case "release":
				sc.release(a.proc)
			case "gossip":
				o := script[nextOffer]
				nextOffer++
				var hdr *vh.Header
				switch o.kind {
				case "valid":
					hdr = chain.At(uint64(o.h))
					ename, ekind, eh = "gossipAsync", "valid", o.h // from now on the store may legitimately reach it
				case "stale":
					hdr = chain.At(uint64(o.h))
				case "forged", "forgedSame":
					hdr = chain.Forge(uint64(o.h), uint64(100+nextOffer))
				case "wrongchain":
					hdr = chain.At(uint64(o.h)).Clone()
					hdr.Chain = []string{"otherchain", ""}[nextOffer%2] // (a header that names no chain is of another chain as well)
				case "fork":
					hdr = chain.Fork(uint64(o.h), uint64(500+nextOffer)).At(uint64(o.h))
				case "lowerLate":
					hdr = chain.At(uint64(o.h)).Clone()
					hdr.T = chain.At(uint64(N)).T + int64(time.Second)
				case "olderAbove":
					hdr = chain.At(uint64(o.h)).Clone()
					hdr.T = chain.At(uint64(o.h-1)).T - int64(5*time.Second)
				}
				mu.Lock()
				gossipBusy = true
				if o.kind != "valid" && o.kind != "stale" {
					lastBad = hdr
				}
				mu.Unlock()
				okind := o.kind
				if okind == "forgedSame" || okind == "lowerLate" || okind == "olderAbove" {
					okind = "forged"
				}
				oh := o.h
				go func() {
					ctx, cancel := context.WithTimeout(context.WithValue(bg, procKey{}, "G"), time.Hour)
					defer cancel()
					err := n.sub.deliver(ctx, hdr)
					mu.Lock()
					gossipBusy = false
					if okind != "valid" {
						done = append(done, verdict{okind, oh, errClass(err)})
					}
					mu.Unlock()
				}()
				synctest.Wait()
			case "head":
				k := headsLeft
				headsLeft--
				mu.Lock()
				headBusy, headProc = true, fmt.Sprintf("H%d", k)
				mu.Unlock()
				go func() {
					ctx, cancel := context.WithTimeout(context.WithValue(bg, procKey{}, fmt.Sprintf("H%d", k)), time.Hour)
					defer cancel()
					defer func() {
						mu.Lock()
						headBusy = false
						mu.Unlock()
					}()
					if hd, err := n.sy.Head(ctx); err == nil && hd != nil {
						mu.Lock()
						if int(hd.Height()) > headRet {
							headRet = int(hd.Height())
						}
						if !chain.IsCanon(hd) {
							headRet = 1 << 20 // a non-canonical header can never have been verified
						}
						mu.Unlock()
					}
				}()
				synctest.Wait()
			}
			// a Head() answer learned meanwhile counts as offered
			learnedMu.Lock()
			lh := learned
			learnedMu.Unlock()
			if ename == "step" && lh > 1 {
				ename, ekind, eh = "gossipAsync", "valid", lh
			}
			evs = append(evs, observe(step, ename, ekind, eh, true))
			// deliveries of headers that must be refused which have returned meanwhile: one event each, with the verdict
			mu.Lock()
			vs := done
			done = nil
			mu.Unlock()
			for _, v := range vs {
				step++
				e := observe(step, "gossip", v.kind, v.h, true)
				e.Res = v.res
				evs = append(evs, e)
			}
		}
		// everything is released; the honest getter answers; the loop must reach the newest learned head
		sc.drain()
		time.Sleep(time.Minute)
		synctest.Wait()
		sc.drain()
		fin := observe(step, "final", "", 0, false)
		ctx, cancel := context.WithTimeout(bg, time.Second)
		if err := n.sy.SyncWait(ctx); err != nil {
			fin.SyncWait = "err"
		} else {
			fin.SyncWait = "nil"
		}
		cancel()
		evs = append(evs, fin)
		hsync.VerifHook = nil
		n.get.pre = nil
		n.stop()
		synctest.Wait()
	})
	return evs, cfg
}

func TestSyncExplore(t *testing.T) {
	path := os.Getenv("VH_TRACE")
	if path == "" {
		t.Skip("VH_TRACE not set")
	}
	tw, err := mbt.NewWriter(path)
	if err != nil {
		t.Fatal(err)
	}
	defer tw.Close()
	rw, err := mbt.NewWriter(os.Getenv("VH_OUT"))
	if err != nil {
		t.Fatal(err)
	}
	defer rw.Close()
	runs, _ := strconv.Atoi(mbt.Env("VH_RUNS", "50"))
	base, _ := strconv.Atoi(mbt.Env("VH_IDBASE", "0"))
	seed, _ := strconv.ParseInt(mbt.Env("VERIF_SEED", "1"), 10, 64)
	for i := 0; i < runs; i++ {
		id := base + i
		rnd := rand.New(rand.NewSource(seed*1000003 + int64(id)))
		evs, cfg := syncExploreOnce(t, id, rnd)
		for _, e := range evs {
			tw.Put(e)
		}
		rw.Put(mbt.Result{ID: id, Key: cfg + fmt.Sprint(len(evs)), NonTriv: len(evs) > 3, Verdict: "ok", Detail: cfg})
	}
}
