package synch

import (
	"errors"
	"context"
	"fmt"
	"strings"
	"testing"
	"testing/synctest"
	"time"

	"github.com/celestiaorg/go-header"
	hsync "github.com/celestiaorg/go-header/sync"

	"verifharness/mbt"
	"verifharness/vh"
)

type TailObs struct {
	Kind     string `json:"kind"` // ok | panic | error
	Wrapped  bool   `json:"wrapped"`
	Tail     int    `json:"tail"`
	Head     int    `json:"head"`
	GapFree  bool   `json:"gapFree"`
	Lost     []int  `json:"lost"`   // heights readable before and not after
	Orphans  []int  `json:"orphans"` // heights readable outside Tail..Head afterwards
	HeadErr  bool   `json:"headErr"` // a later Head() call still fails
	Msg      string `json:"msg,omitempty"`
	// afterwards a header for an already known height with a later timestamp is gossiped (it must be refused):
	KnownRes  string `json:"knownRes"`  // "" (not run) | nil | err
	KnownTail int    `json:"knownTail"` // Tail after that delivery
	KnownLost []int  `json:"knownLost"` // heights readable before the delivery and not after it
}

type TailRec struct {
	Tr  int            `json:"tr"`
	In  map[string]any `json:"in"`
	Obs TailObs        `json:"obs"`
}

const tick = time.Hour

func TestTail(t *testing.T) {
	cases, rw, tw := openIO(t)
	defer rw.Close()
	defer tw.Close()
	for _, c := range cases {
		in := mbt.Map(c, "in")
		id := mbt.Int(c, "id")
		bt, w, tp, sfh := mbt.Int(in, "bt"), mbt.Int(in, "w"), mbt.Int(in, "tp"), mbt.Int(in, "sfh")
		tail, shead, nhead := mbt.Int(in, "tail"), mbt.Int(in, "shead"), mbt.Int(in, "nhead")
		times := mbt.Ints(c["times"])
		// replay-only variant: the same row on a finer time scale (a tick of 1.5 s or 0.5 s instead of one hour: block times
		// that are not whole seconds); every duration of the scenario scales with it
		tk := tick
		if ms := mbt.Int(in, "tickMs"); ms > 0 {
			tk = time.Duration(ms) * time.Millisecond
		}
		rec := TailRec{Tr: id, In: in, Obs: TailObs{Lost: []int{}, Orphans: []int{}}}
		synctest.Test(t, func(t *testing.T) {
			bg := context.Background()
			now := time.Now()
			base := now.Add(-tk / 60).Add(-time.Duration(times[nhead-1]) * tk)
			ts := make([]int64, len(times))
			for i, x := range times {
				ts[i] = base.Add(time.Duration(x) * tk).UnixNano()
			}
			full := vh.NewChainTimes("c", 1, ts)
			// the network (getter) knows the chain up to nhead
			netChain := vh.NewChainTimes("c", 1, ts[:nhead])
			opts := []hsync.Option{hsync.WithBlockTime(time.Duration(bt) * tk), hsync.WithPruningWindow(time.Duration(w) * tk),
				hsync.WithRecencyThreshold(time.Nanosecond)}
			if tail == 0 {
				opts = append(opts, hsync.WithTrustingPeriod(time.Duration(tp)*tk))
			} else {
				// a running store: the stored head must not be expired (that would be a re-initialisation).  Replay-only
				// variant tpSmall: the shortest trusting period that still covers the stored head, when that is shorter
				// than the pruning window — the pruning window is what bounds the stored history, not the trusting period
				trusting := 100000 * tk
				if ageHead := times[nhead-1] - times[shead-1]; mbt.Bool(in, "tpSmall") && ageHead+1 < w {
					trusting = time.Duration(ageHead+1)*tk + tk/30
				}
				opts = append(opts, hsync.WithTrustingPeriod(trusting))
			}
			if sfh > 0 {
				if h := full.At(uint64(sfh)); mbt.Bool(in, "byHash") && h != nil {
					// replay-only variant: the same starting point given by hash (SyncFromHash has priority over the height)
					opts = append(opts, hsync.WithSyncFromHash(h.Hash().String()))
				} else {
					opts = append(opts, hsync.WithSyncFromHeight(uint64(sfh)))
				}
			}
			n := newNode(t, netChain, 0, 4, opts...)
			_ = full
			if tail > 0 {
				if err := n.st.Append(bg, netChain.Range(uint64(tail), uint64(shead+1))...); err != nil {
					t.Fatal(err)
				}
				_ = n.st.Sync(bg)
			}
			before := map[int]bool{}
			for h := 1; h <= nhead; h++ {
				ctx, cancel := context.WithTimeout(bg, time.Millisecond)
				if _, err := n.st.GetByHeight(ctx, uint64(h)); err == nil {
					before[h] = true
				}
				cancel()
			}
			n.get.headFn = func(gcall, *vh.Header) (*vh.Header, error) { return netChain.Head(), nil }
			if p := mbt.Int(in, "partial"); p > 0 {
				// the peers answer every range request with its first p headers only
				n.get.rangeFn = func(gc gcall, from *vh.Header) ([]*vh.Header, error) {
					hi := from.Height() + 1 + uint64(p)
					if hi > gc.To {
						hi = gc.To
					}
					return n.get.honestRange(from.Height()+1, hi)
				}
			}
			var startErr error
			start := func() {
				defer func() {
					if r := recover(); r != nil {
						rec.Obs.Kind = "panic"
						rec.Obs.Msg = fmt.Sprint(r)
					}
				}()
				ctx, cancel := context.WithTimeout(bg, time.Minute)
				defer cancel()
				startErr = n.sy.Start(ctx)
			}
			switch {
			case mbt.Bool(in, "retry"):
				// replay-only variant: the first single-header request of the peers fails (a dropped connection); Start reports
				// that, and is simply called again — what is computed and stored in the end is the same
				failed := false
				n.get.byHFn = func(gc gcall) (*vh.Header, error) {
					if !failed {
						failed = true
						return nil, errors.New("scripted: peer disconnected")
					}
					if h := netChain.At(gc.H); h != nil {
						return h, nil
					}
					return nil, header.ErrNotFound
				}
				start()
				if failed && startErr != nil && rec.Obs.Kind == "" {
					start()
				}
			case mbt.Bool(in, "concHead"):
				// replay-only variant: a second caller asks for Head() while Start is still fetching the tail header (the
				// request is held); it gets a header or an error, and Start then finishes as if it had been alone
				hold := make(chan struct{})
				held := false
				n.get.byHFn = func(gc gcall) (*vh.Header, error) {
					if !held {
						held = true
						<-hold
					}
					if h := netChain.At(gc.H); h != nil {
						return h, nil
					}
					return nil, header.ErrNotFound
				}
				done := make(chan struct{})
				go func() { defer close(done); start() }()
				synctest.Wait()
				if held {
					func() {
						defer func() {
							if r := recover(); r != nil {
								rec.Obs.Kind = "panic"
								rec.Obs.Msg = "second Head() caller: " + fmt.Sprint(r)
							}
						}()
						ctx, cancel := context.WithTimeout(bg, time.Minute)
						defer cancel()
						_, _ = n.sy.Head(ctx)
					}()
				}
				close(hold)
				<-done
				n.get.byHFn = nil
			default:
				start()
			}
			time.Sleep(tk / 2) // virtual: lets the sync loop (if any) finish
			synctest.Wait()
			if rec.Obs.Kind == "" {
				rec.Obs.Kind = "ok"
				if startErr != nil {
					rec.Obs.Kind = "error"
					rec.Obs.Msg = startErr.Error()
					if len(rec.Obs.Msg) > 160 {
						rec.Obs.Msg = rec.Obs.Msg[:160]
					}
				}
			}
			for _, gc := range n.get.callsOf("GetByHeight") {
				if gc.H >= 1<<62 {
					rec.Obs.Wrapped = true
				}
			}
			if strings.Contains(rec.Obs.Msg, "18446744") {
				rec.Obs.Wrapped = true
			}
			if hd, err := n.st.Head(bg); err == nil {
				rec.Obs.Head = int(hd.Height())
			}
			if tl, err := n.st.Tail(bg); err == nil {
				rec.Obs.Tail = int(tl.Height())
			}
			rec.Obs.GapFree = true
			for h := 1; h <= nhead; h++ {
				ctx, cancel := context.WithTimeout(bg, time.Millisecond)
				_, err := n.st.GetByHeight(ctx, uint64(h))
				cancel()
				in := rec.Obs.Tail != 0 && h >= rec.Obs.Tail && h <= rec.Obs.Head
				if err != nil && in {
					rec.Obs.GapFree = false
				}
				if err != nil && before[h] {
					rec.Obs.Lost = append(rec.Obs.Lost, h)
				}
				if err == nil && !in {
					rec.Obs.Orphans = append(rec.Obs.Orphans, h)
				}
			}
			if rec.Obs.Kind != "panic" {
				func() {
					defer func() {
						if r := recover(); r != nil {
							rec.Obs.Kind, rec.Obs.Msg = "panic", fmt.Sprint(r)
						}
					}()
					ctx, cancel := context.WithTimeout(bg, time.Minute)
					defer cancel()
					_, err := n.sy.Head(ctx)
					rec.Obs.HeadErr = err != nil
				}()
			}
			rec.Obs.KnownLost = []int{}
			if rec.Obs.Kind == "ok" && tail > 0 && !rec.Obs.HeadErr {
				// a header for a height the node already has, dated later than the real one: refused as known, and the
				// refusal must not move the tail
				present := map[int]bool{}
				for h := 1; h <= nhead; h++ {
					ctx, cancel := context.WithTimeout(bg, time.Millisecond)
					if _, err := n.st.GetByHeight(ctx, uint64(h)); err == nil {
						present[h] = true
					}
					cancel()
				}
				kh := netChain.At(uint64(shead)).Clone()
				kh.T = netChain.Head().T + int64(tk/120)
				func() {
					defer func() {
						if r := recover(); r != nil {
							rec.Obs.Kind, rec.Obs.Msg = "panic", fmt.Sprint(r)
						}
					}()
					ctx, cancel := context.WithTimeout(bg, time.Minute)
					defer cancel()
					if err := n.sub.deliver(ctx, kh); err == nil {
						rec.Obs.KnownRes = "nil"
					} else {
						rec.Obs.KnownRes = "err"
					}
				}()
				time.Sleep(tk / 60)
				synctest.Wait()
				if tl, err := n.st.Tail(bg); err == nil {
					rec.Obs.KnownTail = int(tl.Height())
				}
				for h := 1; h <= nhead; h++ {
					ctx, cancel := context.WithTimeout(bg, time.Millisecond)
					if _, err := n.st.GetByHeight(ctx, uint64(h)); err != nil && present[h] {
						rec.Obs.KnownLost = append(rec.Obs.KnownLost, h)
					}
					cancel()
				}
			}
			n.stop()
			time.Sleep(tk / 60)
			synctest.Wait()
		})
		tw.Put(rec)
		res := mbt.Result{ID: id, Key: mbt.J(in), NonTriv: rec.Obs.Kind != "ok" || rec.Obs.Tail > 1, Verdict: "ok"}
		want := mbt.Map(c, "predicted")
		wk := mbt.Str(want, "kind")
		ok := rec.Obs.Kind == wk || (wk == "wrap" && rec.Obs.Wrapped)
		if ok && wk == "ok" && rec.Obs.Tail != mbt.Int(want, "tail") {
			// the store's Height() at the moment the tail is computed may or may not include an adjacent new head yet
			// (asynchronous flush): the model gives both outcomes
			if alt := mbt.Map(c, "alt"); mbt.Str(alt, "kind") != "ok" || rec.Obs.Tail != mbt.Int(alt, "tail") {
				ok = false
			}
		}
		if !ok {
			res.Verdict, res.Detail = "drift", fmt.Sprintf("in=%s observed %s, model %s", mbt.J(in), mbt.J(rec.Obs), mbt.J(want))
		}
		rw.Put(res)
	}
}
