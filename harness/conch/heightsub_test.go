package conch

// TestHeightSub: seeded walks over the schedule space of a bare store.heightSub (handed out by the verif accessor
// VerifNewHeightSub): up to three concurrent SetHeight callers, Notify calls, up to four WaitUnless callers and
// cancellations.  Every verif yield point of heightsub.go parks its goroutine; one parked goroutine, or one call that has
// not been made yet, is released per step and the bubble runs to quiescence.  After every step the event and what the code
// shows (Height(), where each goroutine is parked, what each finished waiter returned) is written as one NDJSON line;
// spec/HeightSubTrace.tla validates the lines against HeightSub.tla (the model TLC checks) and evaluates the C12 / C17
// clauses on them.

import (
	"context"
	"errors"
	"fmt"
	"math/rand"
	"os"
	"sort"
	"strconv"
	"sync"
	"testing"
	"testing/synctest"

	"github.com/celestiaorg/go-header/store"

	"verifharness/mbt"
)

type hsEvent struct {
	Tr        int               `json:"tr"`
	I         int               `json:"i"`
	P         string            `json:"p"`
	A         string            `json:"a"`
	X         int               `json:"x"`
	Height    int               `json:"height"`
	Pcs       map[string]string `json:"pcs"`
	Res       map[string]string `json:"res"`
	Wants     map[string]int    `json:"wants"`
	Cancelled map[string]bool   `json:"cancelled"`
	Stored    []int             `json:"stored"`
	Cfg       string            `json:"cfg"`
	HasInit   bool              `json:"hasInit"` // an Init call (the head moved down: a deletion) has happened in this walk
}

var hsSetters = []string{"S1", "S2", "S3"}
var hsWaiters = []string{"W1", "W2", "W3", "W4"}

func hsWalk(t *testing.T, id int, rnd *rand.Rand, tw *mbt.Writer) {
	synctest.Test(t, func(t *testing.T) {
		hs := store.VerifNewHeightSub()
		maxH := 3 + rnd.Intn(4) // 3..6
		var mu sync.Mutex
		gates := map[string]chan struct{}{}
		at := map[string]string{}
		pass := false
		target := map[int]string{} // target height of a running SetHeight -> its setter (the hook of SetHeight has no context)
		stored := map[int]bool{}
		done := map[string]bool{}
		started := map[string]bool{}
		res := map[string]string{}
		wants := map[string]int{}
		cancelled := map[string]bool{}
		cancels := map[string]context.CancelFunc{}
		hook := func(ctx context.Context, point string, args ...uint64) {
			proc := ""
			if ctx != nil {
				if v, ok := ctx.Value(procKey{}).(string); ok {
					proc = v
				}
			}
			mu.Lock()
			if proc == "" && len(args) > 0 {
				proc = target[int(args[0])]
			}
			if pass || proc == "" {
				mu.Unlock()
				return
			}
			ch := make(chan struct{})
			gates[proc] = ch
			at[proc] = point
			mu.Unlock()
			<-ch
		}
		store.VerifHook = hook
		defer func() { store.VerifHook = nil }()
		cfg := fmt.Sprintf("maxH=%d", maxH)
		withInit := id%4 == 3 // every fourth walk: Init calls (what a head-side deletion or a wipe and re-init does to the heightSub)
		hasInit := false
		i := 0
		emit := func(p, a string, x int) {
			synctest.Wait()
			mu.Lock()
			defer mu.Unlock()
			ev := hsEvent{Tr: id, I: i, P: p, A: a, X: x, Height: int(hs.Height()), Pcs: map[string]string{}, Res: map[string]string{},
				Wants: map[string]int{}, Cancelled: map[string]bool{}, Stored: []int{}, Cfg: cfg, HasInit: hasInit}
			i++
			for _, s := range hsSetters {
				switch {
				case !started[s]:
					ev.Pcs[s] = "idle"
				case done[s]:
					ev.Pcs[s] = "done"
				case at[s] == "setHeight.afterLoad":
					ev.Pcs[s] = "loaded"
				case at[s] == "setHeight.afterCAS":
					ev.Pcs[s] = "swapped"
				default:
					ev.Pcs[s] = "running"
				}
			}
			for _, w := range hsWaiters {
				switch {
				case !started[w]:
					ev.Pcs[w] = "idle"
				case done[w]:
					ev.Pcs[w] = "done"
				case at[w] == "wait.afterCheck":
					ev.Pcs[w] = "checked"
				case at[w] == "wait.subscribed":
					ev.Pcs[w] = "subscribed"
				default:
					ev.Pcs[w] = "waiting"
				}
				ev.Res[w] = res[w]
				ev.Wants[w] = wants[w]
				ev.Cancelled[w] = cancelled[w]
			}
			for h := range stored {
				ev.Stored = append(ev.Stored, h)
			}
			sort.Ints(ev.Stored)
			tw.Put(ev)
		}
		release := func(p string) {
			mu.Lock()
			ch := gates[p]
			delete(gates, p)
			delete(at, p)
			mu.Unlock()
			if ch != nil {
				close(ch)
			}
		}
		steps := 6 + rnd.Intn(14)
		for k := 0; k < steps; k++ {
			type act struct {
				kind, p string
				x       int
			}
			var acts []act
			mu.Lock()
			var parked []string
			for p := range gates {
				parked = append(parked, p)
			}
			sort.Strings(parked)
			for _, p := range parked {
				acts = append(acts, act{"step", p, 0}, act{"step", p, 0})
			}
			for _, s := range hsSetters {
				if !started[s] || done[s] {
					x := 1 + rnd.Intn(maxH)
					if _, busy := target[x]; !busy {
						acts = append(acts, act{"scall", s, x})
					}
				}
			}
			for _, w := range hsWaiters {
				if !started[w] {
					acts = append(acts, act{"wcall", w, 1 + rnd.Intn(maxH)})
					break // (waiters are interchangeable: always the next one)
				}
			}
			for _, w := range hsWaiters {
				if started[w] && !done[w] && !cancelled[w] && rnd.Intn(3) == 0 {
					acts = append(acts, act{"cancel", w, 0})
				}
			}
			acts = append(acts, act{"notify", "N", 1 + rnd.Intn(maxH)})
			if withInit && rnd.Intn(3) == 0 {
				acts = append(acts, act{"init", "I", 1 + rnd.Intn(maxH)})
			}
			mu.Unlock()
			a := acts[rnd.Intn(len(acts))]
			switch a.kind {
			case "step":
				release(a.p)
				emit(a.p, "step", 0)
			case "scall":
				mu.Lock()
				started[a.p], done[a.p] = true, false
				target[a.x] = a.p
				for h := 1; h <= a.x; h++ {
					stored[h] = true
				}
				mu.Unlock()
				p, x := a.p, a.x
				go func() {
					hs.SetHeight(uint64(x))
					mu.Lock()
					done[p] = true
					delete(target, x)
					mu.Unlock()
				}()
				emit(a.p, "call", a.x)
			case "wcall":
				ctx, cancel := context.WithCancel(context.WithValue(context.Background(), procKey{}, a.p))
				mu.Lock()
				started[a.p] = true
				wants[a.p] = a.x
				cancels[a.p] = cancel
				mu.Unlock()
				p, x := a.p, a.x
				go func() {
					err := hs.WaitUnless(ctx, uint64(x), func() bool {
						mu.Lock()
						defer mu.Unlock()
						return stored[x]
					})
					mu.Lock()
					defer mu.Unlock()
					done[p] = true
					switch {
					case err == nil:
						res[p] = "ok"
					case hs.Elapsed(err):
						res[p] = "elapsed"
					case errors.Is(err, context.Canceled):
						res[p] = "ctx"
					default:
						res[p] = "other:" + err.Error()
					}
				}()
				emit(a.p, "call", a.x)
			case "cancel":
				mu.Lock()
				cancelled[a.p] = true
				c := cancels[a.p]
				mu.Unlock()
				c()
				emit(a.p, "cancel", 0)
			case "init":
				mu.Lock()
				hasInit = true
				for h := range stored {
					delete(stored, h)
				}
				for h := 1; h <= a.x; h++ {
					stored[h] = true
				}
				mu.Unlock()
				hs.Init(uint64(a.x))
				hs.Notify(uint64(a.x)) // (see ICall in HeightSub.tla)
				emit("I", "call", a.x)
			case "notify":
				mu.Lock()
				stored[a.x] = true
				mu.Unlock()
				hs.Notify(uint64(a.x))
				emit("N", "call", a.x)
			}
		}
		// drain: everything that is parked runs to its end (setters return, waiters reach their select or return)
		mu.Lock()
		pass = true
		var chs []chan struct{}
		for p, ch := range gates {
			chs = append(chs, ch)
			delete(gates, p)
			delete(at, p)
		}
		mu.Unlock()
		for _, ch := range chs {
			close(ch)
		}
		emit("-", "drain", 0)
		mu.Lock()
		for _, w := range hsWaiters {
			if started[w] && !done[w] {
				cancelled[w] = true
				cancels[w]()
			}
		}
		mu.Unlock()
		emit("-", "cancelall", 0)
		for _, c := range cancels {
			c()
		}
	})
}

func TestHeightSub(t *testing.T) {
	runs, _ := strconv.Atoi(os.Getenv("VH_RUNS"))
	if runs == 0 {
		runs = 50
	}
	base, _ := strconv.Atoi(os.Getenv("VH_IDBASE"))
	seed, _ := strconv.ParseInt(os.Getenv("VERIF_SEED"), 10, 64)
	tp := os.Getenv("VH_TRACE")
	if tp == "" {
		tp = t.TempDir() + "/hs.ndjson"
	}
	tw, err := mbt.NewWriter(tp)
	if err != nil {
		t.Fatal(err)
	}
	defer tw.Close()
	for k := 0; k < runs; k++ {
		id := base + k
		hsWalk(t, id, rand.New(rand.NewSource(seed*1000003+int64(id))), tw)
	}
}
