// Package conch replays StoreConc.tla schedules on the real store.Store: every step of the
// model is the code segment between two verif yield points, the installed hook parks the calling
// goroutine on a gate, the scheduler releases exactly the goroutine named by the next step and
// waits (synctest.Wait) until every goroutine is durably blocked again.
package conch

import (
	"context"
	"errors"
	"fmt"
	"os"
	"sort"
	"strings"
	"sync"
	"testing"
	"testing/synctest"
	"time"

	header "github.com/celestiaorg/go-header"
	"github.com/celestiaorg/go-header/store"

	"verifharness/mbt"
	"verifharness/rec"
	"verifharness/vh"
)

type procKey struct{}

type sched struct {
	mu    sync.Mutex
	gates map[string]chan struct{}
	at    map[string]string
	pass  bool // pass-through for every process (drain, second phase)
	passR bool // pass-through for the readers only (drain, first phase)
	log   []string
	// cause bookkeeping for the lost wake-up finding: the heights whose notification has fired (everything stored
	// when the writer reaches flush.notified), and for every reader whether its height was among them when it went
	// on to subscribe (left wait.afterCheck)
	probe    func() map[int]bool // heights stored right now (never gated)
	notified map[int]bool
	waitH    map[string]int
	late     map[string]bool
	// yield points this driver does not stop at (TestReplay: StoreConc.tla's step "advance" runs from the head walk to
	// setHeight.afterCAS; the point setHeight.afterLoad inside it belongs to HeightSub.tla's grain)
	skip map[string]bool
}

// leaving: proc is about to continue from point (called with s.mu held)
func (s *sched) leaving(proc, point string) {
	if point == "wait.afterCheck" {
		s.late[proc] = s.notified[s.waitH[proc]]
	}
}

func newSched() *sched {
	return &sched{gates: map[string]chan struct{}{}, at: map[string]string{}, notified: map[int]bool{},
		waitH: map[string]int{}, late: map[string]bool{}}
}

func (s *sched) hook(ctx context.Context, point string, args ...uint64) {
	proc := "W"
	if ctx != nil {
		if v, ok := ctx.Value(procKey{}).(string); ok {
			proc = v
		}
	}
	if proc == "X" {
		return // the harness's own probes
	}
	var stored map[int]bool
	if proc == "W" && point == "flush.notified" && s.probe != nil {
		stored = s.probe()
	}
	s.mu.Lock()
	for h := range stored {
		s.notified[h] = true
	}
	if point == "wait.afterCheck" && len(args) > 0 {
		s.waitH[proc] = int(args[0])
	}
	if s.pass || (s.passR && proc != "W") || s.skip[point] {
		s.leaving(proc, point)
		s.mu.Unlock()
		return
	}
	for s.gates[proc] != nil {
		proc += "'" // a second goroutine acting for the same process (e.g. SetHeight called from a deleter)
	}
	ch := make(chan struct{})
	s.gates[proc] = ch
	s.at[proc] = point
	s.log = append(s.log, proc+"@"+point)
	s.mu.Unlock()
	<-ch
}

// release lets proc continue from the gate it is parked at; returns false if it is not at a gate.
func (s *sched) release(proc string) bool {
	s.mu.Lock()
	ch, ok := s.gates[proc]
	if ok {
		s.leaving(proc, s.at[proc])
		delete(s.gates, proc)
		delete(s.at, proc)
	}
	s.mu.Unlock()
	if !ok {
		return false
	}
	close(ch)
	synctest.Wait()
	return true
}

func (s *sched) where(proc string) string {
	s.mu.Lock()
	defer s.mu.Unlock()
	return s.at[proc]
}

// drain releases everything that is parked and switches to pass-through, readers first: every reader runs until
// it has returned or subscribed before the writer moves on, so that "subscribed before / after the notification"
// is a fact of the run and not of the Go scheduler.
func (s *sched) drain() {
	for _, phase := range []string{"readers", "all"} {
		s.mu.Lock()
		if phase == "readers" {
			s.passR = true
		} else {
			s.pass = true
		}
		var chs []chan struct{}
		for k, ch := range s.gates {
			if phase == "readers" && k == "W" {
				continue
			}
			s.leaving(k, s.at[k])
			chs = append(chs, ch)
			delete(s.gates, k)
			delete(s.at, k)
		}
		s.mu.Unlock()
		for _, ch := range chs {
			close(ch)
		}
		synctest.Wait()
	}
}

type reader struct {
	id      int
	want    int
	started bool
	done    bool
	res     string
	badHdr  bool
	cancel  context.CancelFunc
}

// Record is the per-schedule outcome judged by StoreConcTrace.tla.
type Record struct {
	Tr       int      `json:"tr"`
	Appended []int    `json:"appended"`
	Readers  []RdrOut `json:"readers"`
	Height   int      `json:"height"`
	Head     int      `json:"head"`
	HeadSeq  []int    `json:"headseq"` // Head().Height() observed after every step
	HsSeq    []int    `json:"hsseq"`   // Height() observed after every step
	Steps    int      `json:"steps"`
	Cfg      string   `json:"cfg,omitempty"`  // free exploration: the generated configuration
	Kind     string   `json:"kind,omitempty"` // "" (reader schedules) | stop (C06 free schedules) | c17free | stress
	Stored   []int    `json:"stored"`         // appended and not wiped since (nil: same as appended)
	// c17 free schedules
	SyncedBad   int   `json:"syncedBad"`
	FinalTail   int   `json:"finalTail"`
	TailWant    int   `json:"tailWant"`
	HeadWant int `json:"headWant"`
	RefillEarly string `json:"refillEarly,omitempty"` // kind refill: what the reader of a height above the head had returned before that height was appended (none = it waited)
	RefillFinal string `json:"refillFinal,omitempty"` // ... and after it was appended
	TailBad  int `json:"tailBad"` // failed deletions after which Tail() was not a stored header
	Missing     []int `json:"missing"`
	RestartHead int   `json:"restartHead"` // Head / Tail of a fresh Store on the same datastore after a clean Stop (-1: could not start)
	RestartTail int   `json:"restartTail"`
	// c06 free schedules: Stop in the middle, reopen
	StopHung           bool   `json:"stopHung"`
	ReopenErr          string `json:"reopenErr"`
	ReturnedBeforeStop []int  `json:"returnedBeforeStop"`
	Lost               []int  `json:"lost"`
	HeadBelowRun       bool   `json:"headBelowRun"`
}

type RdrOut struct {
	ID            int    `json:"id"`
	Want          int    `json:"want"`
	Started       bool   `json:"started"`
	Res           string `json:"res"`           // result when the schedule (and the drain) is over: ok|notfound|ctx|other|blocked
	BadHeader     bool   `json:"badHeader"`     // nil error with a header that is not the chain's header of that height
	BlockedAfter  bool   `json:"blockedAfter"`  // still blocked after the drain (writer idle, every gate released)
	ReleasedByCtx bool   `json:"releasedByCtx"` // returned after its context was cancelled at the end
	CancelledMid  bool   `json:"cancelledMid"`  // the schedule itself cancelled the context
	// cause bookkeeping: the batch holding Want had already been notified when this reader went on to subscribe
	SubAfterNotify bool `json:"subAfterNotify"`
}

func pcOf(s *sched, r *reader) string {
	switch {
	case !r.started:
		return "init"
	case r.done:
		return "done"
	}
	switch s.where(fmt.Sprintf("R%d", r.id)) {
	case "gbh.afterLookup":
		return "afterLookup"
	case "wait.afterCheck":
		return "afterCheck"
	case "wait.subscribed":
		return "subscribed"
	}
	return "parked"
}

func wpcOf(s *sched) string {
	switch s.where("W") {
	case "flush.pendingAppended":
		return "appended"
	case "flush.notified":
		return "notified"
	case "setHeight.afterCAS":
		return "cas"
	case "flush.headAdvanced":
		return "advanced"
	}
	return "idle"
}

func runSchedule(t *testing.T, id int, c map[string]any, tw, rw *mbt.Writer) {
	wants := mbt.Ints(c["want"])
	script := mbt.List(c, "script")
	hist := mbt.List(c, "hist")
	var rec0 Record
	var drift []string
	var fatal string
	synctest.Test(t, func(t *testing.T) {
		chain := vh.NewChain("c", 1, 12, time.Now().Add(-time.Hour), time.Second, 0)
		st, err := store.NewStore[*vh.Header](rec.New(), store.WithWriteBatchSize(64))
		if err != nil {
			fatal = err.Error()
			return
		}
		bg := context.Background()
		if err := st.Start(bg); err != nil {
			fatal = err.Error()
			return
		}
		_ = st.Append(bg, chain.At(1))
		synctest.Wait()
		sc := newSched()
		sc.skip = map[string]bool{"setHeight.afterLoad": true}
		sc.probe = func() map[int]bool {
			out := map[int]bool{}
			x := context.WithValue(bg, procKey{}, "X")
			for h := uint64(1); h <= 12; h++ {
				if ok, _ := st.Has(x, chain.At(h).Hash()); ok {
					out[int(h)] = true
				}
			}
			return out
		}
		store.VerifHook = sc.hook
		defer func() { store.VerifHook = nil }()
		var mu sync.Mutex
		readers := make([]*reader, len(wants))
		for i, w := range wants {
			readers[i] = &reader{id: i + 1, want: w}
		}
		appended := map[int]bool{1: true}
		startReader := func(r *reader) {
			ctx, cancel := context.WithCancel(context.WithValue(bg, procKey{}, fmt.Sprintf("R%d", r.id)))
			r.cancel = cancel
			r.started = true
			go func() {
				h, err := st.GetByHeight(ctx, uint64(r.want))
				mu.Lock()
				defer mu.Unlock()
				r.done = true
				switch {
				case err == nil:
					r.res = "ok"
					if h == nil || int(h.Height()) != r.want || !chain.IsCanon(h) {
						r.badHdr = true
					}
				case errors.Is(err, header.ErrNotFound):
					r.res = "notfound"
				case errors.Is(err, context.Canceled), errors.Is(err, context.DeadlineExceeded):
					r.res = "ctx"
				default:
					r.res = "other:" + err.Error()
				}
			}()
			synctest.Wait()
		}
		observe := func() {
			hd, _ := st.Head(bg)
			hh := 0
			if hd != nil {
				hh = int(hd.Height())
			}
			rec0.HeadSeq = append(rec0.HeadSeq, hh)
			rec0.HsSeq = append(rec0.HsSeq, int(st.Height()))
		}
		cancelledMid := map[int]bool{}
		for i, stp := range hist {
			step, _ := stp.(map[string]any)
			p, sid, a := mbt.Str(step, "p"), mbt.Int(step, "id"), mbt.Str(step, "a")
			ok := true
			switch p {
			case "R":
				r := readers[sid-1]
				if a == "start" {
					startReader(r)
				} else {
					ok = sc.release(fmt.Sprintf("R%d", sid))
				}
			case "C":
				readers[sid-1].cancel()
				cancelledMid[sid] = true
				synctest.Wait()
			case "A":
				var hs []*vh.Header
				for _, h := range mbt.Ints(script[sid-1]) {
					hs = append(hs, chain.At(uint64(h)))
					appended[h] = true
				}
				if err := st.Append(bg, hs...); err != nil {
					fatal = "append: " + err.Error()
					return
				}
				synctest.Wait()
			case "W":
				ok = sc.release("W")
			}
			if !ok {
				drift = append(drift, fmt.Sprintf("step %d (%s%d.%s): process is not at a gate (model and code disagree on where it is)", i, p, sid, a))
				break
			}
			observe()
			// implementation-level comparison with the model's successor state
			mu.Lock()
			var pcs, ress []string
			for _, r := range readers {
				pcs = append(pcs, pcOf(sc, r))
				x := r.res
				if !r.done {
					x = "none"
				}
				ress = append(ress, x)
			}
			mu.Unlock()
			wantPc, wantRes := mbt.Strs(step["pc"]), mbt.Strs(step["res"])
			if strings.Join(pcs, ",") != strings.Join(wantPc, ",") || strings.Join(ress, ",") != strings.Join(wantRes, ",") ||
				wpcOf(sc) != mbt.Str(step, "wpc") || int(st.Height()) != mbt.Int(step, "hs") {
				drift = append(drift, fmt.Sprintf("step %d (%s%d.%s): code pc=%v res=%v wpc=%s hs=%d; model pc=%v res=%v wpc=%s hs=%d",
					i, p, sid, a, pcs, ress, wpcOf(sc), st.Height(), wantPc, wantRes, mbt.Str(step, "wpc"), mbt.Int(step, "hs")))
				break
			}
		}
		rec0.Steps = len(hist)
		// drain: every gate released, pass-through from now on, writer runs until idle
		sc.drain()
		_ = st.Sync(bg)
		synctest.Wait()
		observe()
		mu.Lock()
		blocked := map[int]bool{}
		for _, r := range readers {
			if r.started && !r.done {
				blocked[r.id] = true
			}
		}
		mu.Unlock()
		// finally cancel every context: all callers must return
		for _, r := range readers {
			if r.started {
				r.cancel()
			}
		}
		synctest.Wait()
		mu.Lock()
		for _, r := range readers {
			out := RdrOut{ID: r.id, Want: r.want, Started: r.started, Res: r.res, BadHeader: r.badHdr,
				BlockedAfter: blocked[r.id], CancelledMid: cancelledMid[r.id]}
			if !r.started {
				out.Res = "none"
			} else if !r.done {
				out.Res = "blocked"
			}
			out.ReleasedByCtx = blocked[r.id] && r.done
			out.SubAfterNotify = sc.late[fmt.Sprintf("R%d", r.id)]
			rec0.Readers = append(rec0.Readers, out)
		}
		mu.Unlock()
		for h := range appended {
			rec0.Appended = append(rec0.Appended, h)
		}
		sort.Ints(rec0.Appended)
		rec0.Stored = append([]int{}, rec0.Appended...)
		rec0.Missing, rec0.ReturnedBeforeStop, rec0.Lost = []int{}, []int{}, []int{}
		hd, _ := st.Head(bg)
		if hd != nil {
			rec0.Head = int(hd.Height())
		}
		rec0.Height = int(st.Height())
		store.VerifHook = nil
		_ = st.Stop(bg)
		synctest.Wait()
	})
	rec0.Tr = id
	res := mbt.Result{ID: id, Key: mbt.J(c["hist"]), NonTriv: len(hist) > 2}
	switch {
	case fatal != "":
		res.Verdict, res.Detail = "violation", fatal
		res.Sig = map[string]any{"family": "conc", "symptom": "fatal"}
	case len(drift) > 0:
		res.Verdict, res.Detail = "drift", strings.Join(drift, "; ")
	default:
		res.Verdict = "ok"
	}
	if fatal == "" {
		tw.Put(rec0)
	}
	rw.Put(res)
}

func TestReplay(t *testing.T) {
	path := os.Getenv("VH_CASES")
	if path == "" {
		t.Skip("VH_CASES not set")
	}
	cases, err := mbt.ReadCases(path)
	if err != nil {
		t.Fatal(err)
	}
	rw, err := mbt.NewWriter(os.Getenv("VH_OUT"))
	if err != nil {
		t.Fatal(err)
	}
	defer rw.Close()
	tw, err := mbt.NewWriter(os.Getenv("VH_TRACE"))
	if err != nil {
		t.Fatal(err)
	}
	defer tw.Close()
	for _, c := range cases {
		runSchedule(t, mbt.Int(c, "id"), c, tw, rw)
	}
}
