package conch

import (
	"context"
	"math/rand"
	"os"
	"strconv"
	"sync"
	"sync/atomic"
	"testing"
	"time"

	"github.com/celestiaorg/go-header/store"

	"verifharness/mbt"
	"verifharness/rec"
	"verifharness/vh"
)

// StressRec is the outcome of one un-gated real-thread run (C17), judged by StoreConcTrace.tla.
type StressRec struct {
	Tr          int      `json:"tr"`
	Kind        string   `json:"kind"`
	N           int      `json:"n"`
	Writers     int      `json:"writers"`
	Bsz         int      `json:"bsz"`
	Deleter     bool     `json:"deleter"`
	HeadSeqs    [][]int  `json:"headseqs"` // per observer: Head().Height() samples (run-length compressed)
	HsSeqs      [][]int  `json:"hsseqs"`   // per observer: Height() samples
	HeadBad     int      `json:"headBad"`  // Head() header not retrievable by height / by hash when re-read at once
	SyncedBad   int      `json:"syncedBad"`
	FinalHead   int      `json:"finalHead"`
	FinalTail   int      `json:"finalTail"`
	FinalHs     int      `json:"finalHs"`
	Missing     []int    `json:"missing"` // heights in finalTail..finalHead not readable at the end
	TailWant    int      `json:"tailWant"`
	RestartHead int      `json:"restartHead"` // Head / Tail of a fresh Store on the same datastore after a clean Stop
	RestartTail int      `json:"restartTail"`
	Errors      int      `json:"errors"`
	Readers     []RdrOut `json:"readers"`
	Appended    []int    `json:"appended"`
	Height      int      `json:"height"`
	Head        int      `json:"head"`
	HeadSeq     []int    `json:"headseq"`
	HsSeq       []int    `json:"hsseq"`
}

func compress(s []int) []int {
	out := []int{}
	for i, v := range s {
		if i == 0 || v != s[i-1] {
			out = append(out, v)
		}
	}
	return out
}

func stressOnce(t *testing.T, id int, rnd *rand.Rand) StressRec {
	n := 40 + rnd.Intn(120)
	w := 2 + rnd.Intn(3)
	bsz := []int{1, 4, 16, 64}[rnd.Intn(4)]
	withDel := rnd.Intn(2) == 0
	out := StressRec{Tr: id, Kind: "stress", N: n, Writers: w, Bsz: bsz, Deleter: withDel, Missing: []int{},
		Readers: []RdrOut{}, Appended: []int{}, HeadSeq: []int{}, HsSeq: []int{}}
	chain := vh.NewChain("c", 1, n+1, time.Now().Add(-time.Hour), time.Second, 0)
	rs := rec.New()
	st, err := store.NewStore[*vh.Header](rs, store.WithWriteBatchSize(bsz), store.WithStoreCacheSize(8), store.WithIndexCacheSize(8))
	if err != nil {
		t.Fatal(err)
	}
	bg := context.Background()
	if err := st.Start(bg); err != nil {
		t.Fatal(err)
	}
	_ = st.Append(bg, chain.At(1))
	_ = st.Sync(bg)
	// chunks dealt round-robin to the writers
	type chunk struct{ from, to int }
	var chunks []chunk
	for h := 2; h <= n; {
		k := 1 + rnd.Intn(8)
		if h+k > n+1 {
			k = n + 1 - h
		}
		// now and then a chunk starts with the last one or two headers of the chunk below it (another writer's): overlapping
		// appends; never in the part the deleter may prune (re-appending a pruned header would move the tail back)
		ov := 0
		if rnd.Intn(3) == 0 && h-2 > n/4+2 {
			ov = 1 + rnd.Intn(2)
		}
		chunks = append(chunks, chunk{h - ov, h + k})
		h += k
	}
	var errs, headBad, syncedBad atomic.Int64
	var wg sync.WaitGroup
	done := make(chan struct{})
	seeds := make([]int64, w)
	for i := range seeds {
		seeds[i] = rnd.Int63()
	}
	for i := 0; i < w; i++ {
		wg.Add(1)
		go func(i int) {
			defer wg.Done()
			r := rand.New(rand.NewSource(seeds[i]))
			for j := i; j < len(chunks); j += w {
				c := chunks[j]
				if err := st.Append(bg, chain.Range(uint64(c.from), uint64(c.to))...); err != nil {
					errs.Add(1)
				}
				if r.Intn(3) == 0 {
					if err := st.Sync(bg); err != nil {
						errs.Add(1)
					}
					// everything this writer appended so far and synced must be readable
					for h := c.from; h < c.to; h++ {
						if h <= n/4+1 {
							continue // may legitimately be gone: the deleter prunes up to n/4
						}
						if _, err := st.Get(bg, chain.At(uint64(h)).Hash()); err != nil {
							syncedBad.Add(1)
						}
					}
				}
				if r.Intn(4) == 0 {
					time.Sleep(time.Duration(r.Intn(200)) * time.Microsecond)
				}
			}
		}(i)
	}
	obs := 2
	headSeqs := make([][]int, obs)
	hsSeqs := make([][]int, obs)
	var owg sync.WaitGroup
	for o := 0; o < obs; o++ {
		owg.Add(1)
		go func(o int) {
			defer owg.Done()
			for {
				select {
				case <-done:
					return
				default:
				}
				hs := int(st.Height())
				hd, err := st.Head(bg)
				if err == nil {
					headSeqs[o] = append(headSeqs[o], int(hd.Height()))
					ctx, cancel := context.WithTimeout(bg, 2*time.Second)
					g, err := st.GetByHeight(ctx, hd.Height())
					cancel()
					// the head that was read may be pruned by the racing deleter before it is read again (the observer can be
					// descheduled for long on a loaded machine): a failed re-read counts only if the header is still at or
					// above the tail afterwards (the tail only moves up)
					// ... and while a deletion is under way the tail pointer still names the old tail although the headers
					// above it are being removed (it moves once, at the end): heights the deleter may prune (up to n/4) are
					// not judged at all when a deleter runs
					stillThere := func() bool {
						if withDel && int(hd.Height()) <= n/4 {
							return false
						}
						tl, terr := st.Tail(bg)
						return terr == nil && tl.Height() <= hd.Height()
					}
					if (err != nil || g.Hash().String() != hd.Hash().String()) && stillThere() {
						headBad.Add(1)
					}
					if _, err := st.Get(bg, hd.Hash()); err != nil && stillThere() {
						headBad.Add(1)
					}
				}
				hsSeqs[o] = append(hsSeqs[o], hs)
				time.Sleep(time.Duration(20+o*13) * time.Microsecond)
			}
		}(o)
	}
	tailWant := 1
	if withDel {
		wg.Add(1)
		go func() {
			defer wg.Done()
			r := rand.New(rand.NewSource(seeds[0] + 7))
			for k := 0; k < 3; k++ {
				time.Sleep(time.Duration(100+r.Intn(400)) * time.Microsecond)
				hd, err := st.Head(bg)
				tl, err2 := st.Tail(bg)
				if err != nil || err2 != nil {
					continue
				}
				to := int(tl.Height()) + 1 + r.Intn(4)
				if to > int(hd.Height()) || to > n/4 {
					continue
				}
				if err := st.DeleteRange(bg, tl.Height(), uint64(to)); err != nil {
					errs.Add(1)
				} else {
					tailWant = to
				}
			}
		}()
	}
	wg.Wait()
	_ = st.Sync(bg)
	close(done)
	owg.Wait()
	for o := 0; o < obs; o++ {
		out.HeadSeqs = append(out.HeadSeqs, compress(headSeqs[o]))
		out.HsSeqs = append(out.HsSeqs, compress(hsSeqs[o]))
	}
	if hd, err := st.Head(bg); err == nil {
		out.FinalHead = int(hd.Height())
	}
	if tl, err := st.Tail(bg); err == nil {
		out.FinalTail = int(tl.Height())
	}
	out.FinalHs = int(st.Height())
	for h := out.FinalTail; h >= 1 && h <= out.FinalHead; h++ {
		ctx, cancel := context.WithTimeout(bg, time.Second)
		g, err := st.GetByHeight(ctx, uint64(h))
		cancel()
		if err != nil || !chain.IsCanon(g) {
			out.Missing = append(out.Missing, h)
		}
	}
	out.TailWant = tailWant
	out.HeadBad, out.SyncedBad, out.Errors = int(headBad.Load()), int(syncedBad.Load()), int(errs.Load())
	_ = st.Stop(bg)
	out.RestartHead, out.RestartTail = -1, -1
	if st2, err := store.NewStore[*vh.Header](rs, store.WithWriteBatchSize(bsz)); err == nil && st2.Start(bg) == nil {
		out.RestartHead, out.RestartTail = 0, 0
		if hd, err := st2.Head(bg); err == nil {
			out.RestartHead = int(hd.Height())
		}
		if tl, err := st2.Tail(bg); err == nil {
			out.RestartTail = int(tl.Height())
		}
		_ = st2.Stop(bg)
	}
	return out
}

func TestStress(t *testing.T) {
	outp := os.Getenv("VH_TRACE")
	if outp == "" {
		t.Skip("VH_TRACE not set")
	}
	runs, _ := strconv.Atoi(mbt.Env("VH_RUNS", "50"))
	seed, _ := strconv.ParseInt(mbt.Env("VERIF_SEED", "1"), 10, 64)
	base, _ := strconv.Atoi(mbt.Env("VH_IDBASE", "0"))
	tw, err := mbt.NewWriter(outp)
	if err != nil {
		t.Fatal(err)
	}
	defer tw.Close()
	rnd := rand.New(rand.NewSource(seed*7919 + int64(base)))
	for i := 0; i < runs; i++ {
		tw.Put(stressOnce(t, base+i, rnd))
	}
}
