package conch

// TestExplore: seeded random walks over the real Store's own schedule space.  Where TestReplay drives the code
// along schedules of StoreConc.tla, here the schedule is chosen on the code: every verif yield point of package
// store and every datastore operation (before and after it took effect, through the recording datastore's Gate)
// parks the calling goroutine; at each step one parked goroutine (or one not yet started call) is picked by the
// seeded generator, released, and the bubble runs to quiescence.  The outcome record has the same shape as the
// one of TestReplay and is judged by the same property layer (StoreConcTrace.tla): no model prediction is
// involved, so a reordering inside one model step (e.g. between two datastore reads of a lookup) is explored too.

import (
	"context"
	"errors"
	"fmt"
	"math/rand"
	"os"
	"sort"
	"strconv"
	"sync"
	"testing"
	"testing/synctest"
	"time"

	header "github.com/celestiaorg/go-header"
	"github.com/celestiaorg/go-header/store"

	"verifharness/mbt"
	"verifharness/rec"
	"verifharness/vh"
)

type exploreCfg struct {
	n       int     // chain heights 1..n
	bsz     int     // write batch size
	wants   []int   // one reader per entry
	script  [][]int // batches, appended in this order
	syncs   int     // number of Sync callers
	delTo   int     // >0: one tail-side DeleteRange(1, delTo) caller
	late    bool    // readers may start after appends (otherwise all readers are started first)
}

func genExplore(rnd *rand.Rand, mode string) exploreCfg {
	c := exploreCfg{n: 4 + rnd.Intn(4), bsz: []int{1, 1, 2, 3, 64}[rnd.Intn(5)]}
	// heights 2..n, some left out (gaps that are never filled), cut into ascending runs, runs mildly shuffled
	var runs [][]int
	var cur []int
	for h := 2; h <= c.n; h++ {
		if rnd.Intn(6) == 0 {
			if len(cur) > 0 {
				runs = append(runs, cur)
				cur = nil
			}
			continue
		}
		cur = append(cur, h)
		if rnd.Intn(2) == 0 {
			runs = append(runs, cur)
			cur = nil
		}
	}
	if len(cur) > 0 {
		runs = append(runs, cur)
	}
	for i := range runs {
		if rnd.Intn(3) == 0 {
			j := rnd.Intn(len(runs))
			runs[i], runs[j] = runs[j], runs[i]
		}
	}
	c.script = runs
	if mode == "c17" {
		c.syncs = rnd.Intn(2)
		if rnd.Intn(2) == 0 {
			c.delTo = 2 + rnd.Intn(2)
		}
		return c
	}
	nr := 1 + rnd.Intn(3)
	for i := 0; i < nr; i++ {
		if i > 0 && rnd.Intn(2) == 0 {
			c.wants = append(c.wants, c.wants[0]) // several readers on the same height
		} else {
			c.wants = append(c.wants, 2+rnd.Intn(c.n-1))
		}
	}
	c.syncs = rnd.Intn(2)
	c.late = rnd.Intn(3) == 0
	return c
}

func exploreOnce(t *testing.T, id int, rnd *rand.Rand, mode string) (rec0 Record, fatal string) {
	c := genExplore(rnd, mode)
	rec0 = Record{Tr: id, Readers: []RdrOut{}, Appended: []int{}, HeadSeq: []int{}, HsSeq: []int{}}
	synctest.Test(t, func(t *testing.T) {
		chain := vh.NewChain("c", 1, 12, time.Now().Add(-time.Hour), time.Second, 0)
		rs := rec.New()
		st, err := store.NewStore[*vh.Header](rs, store.WithWriteBatchSize(c.bsz), store.WithStoreCacheSize(2), store.WithIndexCacheSize(2))
		if err != nil {
			fatal = err.Error()
			return
		}
		bg := context.Background()
		if err := st.Start(bg); err != nil {
			fatal = err.Error()
			return
		}
		_ = st.Append(bg, chain.At(1))
		_ = st.Sync(bg)
		synctest.Wait()
		sc := newSched()
		sc.probe = func() map[int]bool {
			out := map[int]bool{}
			x := context.WithValue(bg, procKey{}, "X")
			for h := uint64(1); h <= 12; h++ {
				if ok, _ := st.Has(x, chain.At(h).Hash()); ok {
					out[int(h)] = true
				}
			}
			return out
		}
		store.VerifHook = sc.hook
		rs.Gate = func(ctx context.Context, point, key string) { sc.hook(ctx, point) }
		defer func() { store.VerifHook = nil; rs.Gate = nil }()

		var mu sync.Mutex
		readers := make([]*reader, len(c.wants))
		for i, w := range c.wants {
			readers[i] = &reader{id: i + 1, want: w}
		}
		appended := map[int]bool{1: true}
		observe := func() {
			x := context.WithValue(bg, procKey{}, "X")
			hd, _ := st.Head(x)
			hh := 0
			if hd != nil {
				hh = int(hd.Height())
			}
			rec0.HeadSeq = append(rec0.HeadSeq, hh)
			rec0.HsSeq = append(rec0.HsSeq, int(st.Height()))
		}
		startReader := func(r *reader) {
			ctx, cancel := context.WithCancel(context.WithValue(bg, procKey{}, fmt.Sprintf("R%d", r.id)))
			r.cancel = cancel
			r.started = true
			go func() {
				h, err := st.GetByHeight(ctx, uint64(r.want))
				mu.Lock()
				defer mu.Unlock()
				r.done = true
				switch {
				case err == nil:
					r.res = "ok"
					if h == nil || int(h.Height()) != r.want || !chain.IsCanon(h) {
						r.badHdr = true
					}
				case errors.Is(err, header.ErrNotFound):
					r.res = "notfound"
				case errors.Is(err, context.Canceled), errors.Is(err, context.DeadlineExceeded):
					r.res = "ctx"
				default:
					r.res = "other:" + err.Error()
				}
			}()
		}
		// calls that have not been made yet, in their own order per kind
		nextReader, nextBatch, nextSync, delLeft := 0, 0, c.syncs, c.delTo > 0
		appendBusy := false // the previous Append has not returned yet (keeps the submission order of the script)
		var errs []string
		for step := 0; step < 600; step++ {
			type act struct {
				kind string
				proc string
			}
			var acts []act
			sc.mu.Lock()
			var parked []string
			for p := range sc.gates {
				parked = append(parked, p)
			}
			sc.mu.Unlock()
			sort.Strings(parked)
			for _, p := range parked {
				acts = append(acts, act{"release", p}, act{"release", p}) // weight 2
			}
			if nextReader < len(readers) && (c.late || nextBatch == 0 || true) {
				acts = append(acts, act{"reader", ""})
			}
			mu.Lock()
			busy := appendBusy
			mu.Unlock()
			if nextBatch < len(c.script) && !busy && (c.late || nextReader == len(readers)) {
				acts = append(acts, act{"append", ""})
			}
			if nextSync > 0 && nextBatch > 0 {
				acts = append(acts, act{"sync", ""})
			}
			// tail-side only: the range must end at or below the current head (the head can only grow meanwhile),
			// otherwise the deletion would legitimately lower or drop the head
			if delLeft && nextBatch > 0 && int(st.Height()) >= c.delTo {
				acts = append(acts, act{"delete", ""})
			}
			if len(acts) == 0 {
				break
			}
			a := acts[rnd.Intn(len(acts))]
			switch a.kind {
			case "release":
				sc.release(a.proc)
			case "reader":
				startReader(readers[nextReader])
				nextReader++
			case "append":
				var hs []*vh.Header
				for _, h := range c.script[nextBatch] {
					hs = append(hs, chain.At(uint64(h)))
					appended[h] = true
				}
				nextBatch++
				mu.Lock()
				appendBusy = true
				mu.Unlock()
				go func() {
					err := st.Append(context.WithValue(bg, procKey{}, "A"), hs...)
					mu.Lock()
					appendBusy = false
					if err != nil {
						errs = append(errs, "append: "+err.Error())
					}
					mu.Unlock()
				}()
			case "sync":
				nextSync--
				k := nextSync
				go func() {
					if err := st.Sync(context.WithValue(bg, procKey{}, fmt.Sprintf("S%d", k))); err != nil {
						mu.Lock()
						errs = append(errs, "sync: "+err.Error())
						mu.Unlock()
					}
				}()
			case "delete":
				delLeft = false
				go func() {
					// may legitimately fail (range above the head when headers are missing): not judged
					_ = st.DeleteRange(context.WithValue(bg, procKey{}, "D"), 1, uint64(c.delTo))
				}()
			}
			synctest.Wait()
			observe()
			rec0.Steps++
		}
		// drain: readers first, then everything; writer runs until idle
		sc.drain()
		_ = st.Sync(context.WithValue(bg, procKey{}, "X"))
		synctest.Wait()
		observe()
		mu.Lock()
		blocked := map[int]bool{}
		for _, r := range readers {
			if r.started && !r.done {
				blocked[r.id] = true
			}
		}
		mu.Unlock()
		for _, r := range readers {
			if r.started {
				r.cancel()
			}
		}
		synctest.Wait()
		mu.Lock()
		for _, r := range readers {
			out := RdrOut{ID: r.id, Want: r.want, Started: r.started, Res: r.res, BadHeader: r.badHdr, BlockedAfter: blocked[r.id]}
			if !r.started {
				out.Res = "none"
			} else if !r.done {
				out.Res = "blocked"
			}
			out.ReleasedByCtx = blocked[r.id] && r.done
			out.SubAfterNotify = sc.late[fmt.Sprintf("R%d", r.id)]
			rec0.Readers = append(rec0.Readers, out)
		}
		if len(errs) > 0 {
			fatal = errs[0]
		}
		mu.Unlock()
		for h := range appended {
			rec0.Appended = append(rec0.Appended, h)
		}
		sort.Ints(rec0.Appended)
		x := context.WithValue(bg, procKey{}, "X")
		if hd, _ := st.Head(x); hd != nil {
			rec0.Head = int(hd.Height())
		}
		rec0.Height = int(st.Height())
		store.VerifHook = nil
		rs.Gate = nil
		_ = st.Stop(bg)
		synctest.Wait()
	})
	rec0.Cfg = fmt.Sprintf("n=%d bsz=%d wants=%v script=%v syncs=%d delTo=%d late=%v", c.n, c.bsz, c.wants, c.script, c.syncs, c.delTo, c.late)
	return rec0, fatal
}

func TestExplore(t *testing.T) {
	path := os.Getenv("VH_TRACE")
	if path == "" {
		t.Skip("VH_TRACE not set")
	}
	tw, err := mbt.NewWriter(path)
	if err != nil {
		t.Fatal(err)
	}
	defer tw.Close()
	rw, err := mbt.NewWriter(os.Getenv("VH_OUT"))
	if err != nil {
		t.Fatal(err)
	}
	defer rw.Close()
	runs, _ := strconv.Atoi(mbt.Env("VH_RUNS", "50"))
	base, _ := strconv.Atoi(mbt.Env("VH_IDBASE", "0"))
	seed, _ := strconv.ParseInt(mbt.Env("VERIF_SEED", "1"), 10, 64)
	mode := mbt.Env("VH_MODE", "c12")
	for i := 0; i < runs; i++ {
		id := base + i
		rnd := rand.New(rand.NewSource(seed*1000003 + int64(id)))
		r, fatal := exploreOnce(t, id, rnd, mode)
		res := mbt.Result{ID: id, Key: r.Cfg + fmt.Sprint(r.HeadSeq, r.Steps), NonTriv: r.Steps > 4, Verdict: "ok"}
		if fatal != "" {
			res.Verdict, res.Detail = "violation", fmt.Sprintf("operation failed unexpectedly in free schedule %d (%s): %s", id, r.Cfg, fatal)
			res.Sig = map[string]any{"family": "conc", "symptom": "operation_failed", "mode": "explore"}
		}
		tw.Put(r)
		rw.Put(res)
	}
}
