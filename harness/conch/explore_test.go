package conch

// TestExplore: seeded random walks over the real Store's own schedule space.  Where TestReplay drives the code
// along schedules of StoreConc.tla, here the schedule is chosen on the code: every verif yield point of package
// store and every datastore operation (before and after it took effect, through the recording datastore's Gate)
// parks the calling goroutine; at each step one parked goroutine (or one not yet started call) is picked by the
// seeded generator, released, and the bubble runs to quiescence.  The outcome record has the same shape as the
// one of TestReplay and is judged by the same property layer (StoreConcTrace.tla): no model prediction is
// involved, so a reordering inside one model step (e.g. between two datastore reads of a lookup) is explored too.

import (
	"context"
	"errors"
	"fmt"
	"math/rand"
	"os"
	"sort"
	"strings"
	"strconv"
	"sync"
	"testing"
	"testing/synctest"
	"time"

	header "github.com/celestiaorg/go-header"
	"github.com/celestiaorg/go-header/store"

	"verifharness/mbt"
	"verifharness/rec"
	"verifharness/vh"
)

type exploreCfg struct {
	n       int     // chain heights 1..n
	bsz     int     // write batch size
	wants   []int   // one reader per entry
	script  [][]int // batches, appended in this order
	syncs   int     // number of Sync callers
	delTo   int     // >0: one tail-side DeleteRange(1, delTo) caller
	late    bool    // readers may start after appends (otherwise all readers are started first)
	empty   bool    // the store starts empty (no header 1): the first batch initialises it at an arbitrary height
	wipe    bool    // c12: one whole-store DeleteRange at a quiet moment, readers stay parked across it
	stopMid bool    // c06: Stop is called somewhere in the middle; the store is reopened afterwards
	delFail int     // c17: >0: an OnDelete handler fails once, at this height; the deleter then retries from Tail()
	delPar  bool    // c17: the deletion takes the parallel path (threshold lowered to 2 headers)
	start   int     // the header the store holds when the walk begins (1, or — c17 without a deleter — one in the middle, so
	// that some of the writers' chunks land below the tail, with or without a gap)
}

func genExplore(rnd *rand.Rand, mode string) exploreCfg {
	c := exploreCfg{n: 4 + rnd.Intn(4), bsz: []int{1, 1, 2, 3, 64}[rnd.Intn(5)], start: 1}
	// heights 2..n, some left out (gaps that are never filled), cut into ascending runs, runs mildly shuffled
	var runs [][]int
	var cur []int
	for h := 2; h <= c.n; h++ {
		if rnd.Intn(6) == 0 {
			if len(cur) > 0 {
				runs = append(runs, cur)
				cur = nil
			}
			continue
		}
		cur = append(cur, h)
		if rnd.Intn(2) == 0 {
			runs = append(runs, cur)
			cur = nil
		}
	}
	if len(cur) > 0 {
		runs = append(runs, cur)
	}
	for i := range runs {
		if rnd.Intn(3) == 0 {
			j := rnd.Intn(len(runs))
			runs[i], runs[j] = runs[j], runs[i]
		}
	}
	if mode == "c12" && len(runs) >= 2 && rnd.Intn(3) == 0 {
		// one Append whose batch has a hole inside: two runs that are not adjacent, given to the Store in one call (a
		// reader of the missing height keeps waiting, readers of the heights around it are woken)
		i := rnd.Intn(len(runs) - 1)
		a, b := runs[i], runs[i+1]
		if a[len(a)-1] > b[0] {
			a, b = b, a
		}
		if a[len(a)-1]+1 < b[0] {
			merged := append(append([]int{}, a...), b...)
			runs = append(append(runs[:i:i], merged), runs[i+2:]...)
		}
	}
	c.script = runs
	if mode == "c06" {
		c.syncs = 1 + rnd.Intn(2)
		c.stopMid = true
		return c
	}
	if mode == "c17" {
		// writers whose chunks overlap: a batch may start with the last one or two headers of the run below it (what is
		// stored in the end is what a sequential execution of the same appends stores, whoever comes first)
		// (not together with the deleter: re-appending a pruned header legitimately moves the tail back down)
		withDeleter := rnd.Intn(2) == 0
		if !withDeleter && rnd.Intn(3) == 0 {
			// the store starts with a header in the middle; that height is taken out of the writers' script
			c.start = 3 + rnd.Intn(c.n-3)
			var runs [][]int
			for _, r := range c.script {
				var cur []int
				for _, h := range r {
					if h == c.start {
						if len(cur) > 0 {
							runs = append(runs, cur)
						}
						cur = nil
						continue
					}
					cur = append(cur, h)
				}
				if len(cur) > 0 {
					runs = append(runs, cur)
				}
			}
			c.script = runs
		}
		if !withDeleter && rnd.Intn(3) > 0 {
			all := map[int]bool{1: true}
			for _, r := range c.script {
				for _, h := range r {
					all[h] = true
				}
			}
			for i, r := range c.script {
				k := rnd.Intn(3)
				for ; k > 0 && r[0] > 2 && all[r[0]-1]; k-- {
					r = append([]int{r[0] - 1}, r...)
				}
				c.script[i] = r
			}
		}
		c.syncs = rnd.Intn(2)
		if withDeleter {
			c.delTo = 2 + rnd.Intn(2)
			if rnd.Intn(3) == 0 {
				c.delFail = 1 + rnd.Intn(c.delTo-1)
			}
			c.delPar = rnd.Intn(3) == 0
		}
		// readers of low heights: they return at once, but they read through the caches while the deleter works
		for i := rnd.Intn(3); i > 0; i-- {
			c.wants = append(c.wants, 1+rnd.Intn(3))
		}
		c.late = true
		return c
	}
	nr := 1 + rnd.Intn(3)
	for i := 0; i < nr; i++ {
		if i > 0 && rnd.Intn(2) == 0 {
			c.wants = append(c.wants, c.wants[0]) // several readers on the same height
		} else {
			c.wants = append(c.wants, 2+rnd.Intn(c.n-1))
		}
	}
	c.syncs = rnd.Intn(2)
	c.late = rnd.Intn(3) == 0
	switch rnd.Intn(6) {
	case 0:
		c.empty = true // the first batch initialises the store somewhere above height 1
	case 1:
		c.wipe = true
	}
	if c.empty || c.wipe {
		// ascending batches only: a height at or below Height() that is not stored is then never stored later, so
		// "not found" stays a correct answer for it until the end of the run
		sort.Slice(c.script, func(i, j int) bool { return c.script[i][0] < c.script[j][0] })
	}
	return c
}

func exploreOnce(t *testing.T, id int, rnd *rand.Rand, mode string) (rec0 Record, fatal string) {
	c := genExplore(rnd, mode)
	rec0 = Record{Tr: id, Readers: []RdrOut{}, Appended: []int{}, HeadSeq: []int{}, HsSeq: []int{}, Stored: []int{}, Missing: []int{},
		ReturnedBeforeStop: []int{}, Lost: []int{}}
	synctest.Test(t, func(t *testing.T) {
		chain := vh.NewChain("c", 1, 12, time.Now().Add(-time.Hour), time.Second, 0)
		rs := rec.New()
		cacheSz := []int{2, 64}[id/2%2] // tiny caches (everything is read from the datastore) or caches that keep what they were given
		st, err := store.NewStore[*vh.Header](rs, store.WithWriteBatchSize(c.bsz), store.WithStoreCacheSize(cacheSz), store.WithIndexCacheSize(cacheSz))
		if err != nil {
			fatal = err.Error()
			return
		}
		bg := context.Background()
		if err := st.Start(bg); err != nil {
			fatal = err.Error()
			return
		}
		handlerFailed := false
		if c.delFail > 0 {
			st.OnDelete(func(_ context.Context, h uint64) error {
				if int(h) == c.delFail && !handlerFailed {
					handlerFailed = true
					return errors.New("scripted: handler failed")
				}
				return nil
			})
		}
		if c.delPar {
			old := store.VerifSetDeleteParallelThreshold(2)
			defer store.VerifSetDeleteParallelThreshold(old)
		}
		if !c.empty {
			_ = st.Append(bg, chain.At(uint64(c.start)))
			_ = st.Sync(bg)
		}
		synctest.Wait()
		sc := newSched()
		sc.probe = func() map[int]bool {
			out := map[int]bool{}
			x := context.WithValue(bg, procKey{}, "X")
			for h := uint64(1); h <= 12; h++ {
				if ok, _ := st.Has(x, chain.At(h).Hash()); ok {
					out[int(h)] = true
				}
			}
			return out
		}
		store.VerifHook = sc.hook
		rs.Gate = func(ctx context.Context, point, key string) { sc.hook(ctx, point+" "+key) }
		defer func() { store.VerifHook = nil; rs.Gate = nil }()

		var mu sync.Mutex
		readers := make([]*reader, len(c.wants))
		for i, w := range c.wants {
			readers[i] = &reader{id: i + 1, want: w}
		}
		appended := map[int]bool{c.start: !c.empty}
		if c.empty {
			delete(appended, c.start)
		}
		stored := map[int]bool{} // appended and not wiped since
		if !c.empty {
			stored[c.start] = true
		}
		returned := map[int]bool{} // heights whose Append had returned nil
		syncedBad := 0
		stopCalled, stopDone := false, false
		var returnedBeforeStop []int
		delOK := false
		tailBad := 0
		observe := func() {
			x := context.WithValue(bg, procKey{}, "X")
			hd, _ := st.Head(x)
			hh := 0
			if hd != nil {
				hh = int(hd.Height())
			}
			rec0.HeadSeq = append(rec0.HeadSeq, hh)
			rec0.HsSeq = append(rec0.HsSeq, int(st.Height()))
		}
		startReader := func(r *reader) {
			ctx, cancel := context.WithCancel(context.WithValue(bg, procKey{}, fmt.Sprintf("R%d", r.id)))
			r.cancel = cancel
			r.started = true
			go func() {
				h, err := st.GetByHeight(ctx, uint64(r.want))
				mu.Lock()
				defer mu.Unlock()
				r.done = true
				switch {
				case err == nil:
					r.res = "ok"
					if h == nil || int(h.Height()) != r.want || !chain.IsCanon(h) {
						r.badHdr = true
					}
				case errors.Is(err, header.ErrNotFound):
					r.res = "notfound"
				case errors.Is(err, context.Canceled), errors.Is(err, context.DeadlineExceeded):
					r.res = "ctx"
				default:
					r.res = "other:" + err.Error()
				}
			}()
		}
		// calls that have not been made yet, in their own order per kind
		nextReader, nextBatch, nextSync, delLeft := 0, 0, c.syncs, c.delTo > 0
		wipeLeft, stopLeft := c.wipe, c.stopMid
		appendBusy := false // the previous Append has not returned yet (keeps the submission order of the script)
		var errs []string
		// scheduling policy: uniform random walk, or (every other run) one directed preemption
		preempt := id%2 == 1
		phase, preludeLeft, victimSteps, helpers := 0, rnd.Intn(4), rnd.Intn(14), 0
		hotHeight, hotSeen := 0, 0
		victimProc := "-"
		victimKind := []string{"append", "append", "sync", "reader", "delete", "stop"}[rnd.Intn(6)]
		switch {
		case mode == "c17" && (victimKind == "reader" || victimKind == "stop"):
			victimKind = "delete"
		case mode == "c12" && (victimKind == "delete" || victimKind == "stop"):
			victimKind = "reader"
		case mode == "c06" && (victimKind == "reader" || victimKind == "delete"):
			victimKind = "stop"
		}
		for step := 0; step < 600; step++ {
			type act struct {
				kind string
				proc string
			}
			var acts []act
			sc.mu.Lock()
			var parked []string
			for p := range sc.gates {
				parked = append(parked, p)
			}
			sc.mu.Unlock()
			sort.Strings(parked)
			for _, p := range parked {
				acts = append(acts, act{"release", p}, act{"release", p}) // weight 2
			}
			if nextReader < len(readers) && (c.late || nextBatch == 0 || true) {
				acts = append(acts, act{"reader", ""})
			}
			mu.Lock()
			busy := appendBusy
			mu.Unlock()
			if nextBatch < len(c.script) && !busy && (c.late || nextReader == len(readers)) {
				acts = append(acts, act{"append", ""})
			}
			if nextSync > 0 && nextBatch > 0 {
				acts = append(acts, act{"sync", ""})
			}
			// tail-side only: the range must end at or below the current head (the head can only grow meanwhile),
			// otherwise the deletion would legitimately lower or drop the head
			if delLeft && nextBatch > 0 && int(st.Height()) >= c.delTo {
				acts = append(acts, act{"delete", ""})
			}
			// a whole-store deletion at a quiet moment: nothing parked at a gate, no append in flight, something stored
			if wipeLeft && nextBatch > 0 && nextBatch < len(c.script) {
				acts = append(acts, act{"wipe", ""})
			}
			if stopLeft && nextBatch > 0 {
				acts = append(acts, act{"stop", ""})
			}
			if len(acts) == 0 {
				break
			}
			if preempt {
				// one-preemption policy: a prelude run to quiescence, then one call (the victim) is stepped alone for a
				// few gates, then everything else runs to quiescence around it, then the victim finishes
				var rel, relV, relO, calls, callV []act
				for _, x := range acts {
					switch {
					case x.kind == "release" && (x.proc == victimProc || x.proc == victimProc+"'"):
						relV = append(relV, x)
					case x.kind == "release":
						relO = append(relO, x)
					case x.kind == victimKind:
						callV = append(callV, x)
					case x.kind != "wipe":
						calls = append(calls, x)
					}
				}
				rel = append(append(rel, relV...), relO...)
				switch phase {
				case 0:
					switch {
					case len(rel) > 0:
						acts = rel
					case preludeLeft > 0 && len(calls) > 0:
						acts = calls[:1]
						preludeLeft--
					default:
						phase = 1
					}
				}
				if phase == 1 {
					if len(callV) > 0 {
						acts = callV[:1]
						switch victimKind {
						case "reader":
							victimProc = fmt.Sprintf("R%d", nextReader+1)
						case "sync":
							victimProc = fmt.Sprintf("S%d", nextSync-1)
						case "delete":
							victimProc = "D"
						case "stop":
							victimProc = "T"
						default:
							victimProc = "W"
						}
						phase = 2
					} else {
						phase = 4
					}
				} else if phase == 2 {
					switch {
					case hotHeight > 0 && victimSteps > 0 && len(relV) > 0:
						// step the deleter until it is about to remove the body of the chosen header from the datastore
						if w := sc.where("D"); strings.HasPrefix(w, "ds.delete.before ") && len(w) > 60 {
							if hotSeen++; hotSeen == hotHeight {
								victimSteps = 0
								phase = 3
								if rnd.Intn(4) > 0 {
									// one more reader, of exactly the header that is being removed
									r := &reader{id: len(readers) + 1, want: hotHeight}
									readers = append(readers, nil)
									copy(readers[nextReader+1:], readers[nextReader:])
									readers[nextReader] = r
									c.wants = append(c.wants, hotHeight)
								}
								break
							}
						}
						acts = relV[:1]
					case victimSteps > 0 && len(relV) > 0:
						acts = relV[:1]
						victimSteps--
					case victimSteps > 0 && len(relO) > 0 && helpers < 60:
						// the victim waits for somebody else (a deleter for the flush loop's Sync, ...): let them help it on
						acts = relO
						helpers++
					default:
						phase = 3
					}
				}
				if phase == 3 {
					switch {
					case len(relO) > 0:
						acts = relO
					case len(calls) > 0 && rnd.Intn(4) > 0: // (some calls are left for after the victim has finished)
						acts = calls[:1]
					default:
						phase = 4
					}
				}
			}
			a := acts[rnd.Intn(len(acts))]
			switch a.kind {
			case "release":
				sc.release(a.proc)
			case "reader":
				startReader(readers[nextReader])
				nextReader++
			case "append":
				var hs []*vh.Header
				for _, h := range c.script[nextBatch] {
					hs = append(hs, chain.At(uint64(h)))
					appended[h] = true
				}
				nextBatch++
				mu.Lock()
				appendBusy = true
				mu.Unlock()
				for _, h := range c.script[nextBatch-1] {
					stored[h] = true
				}
				batch := c.script[nextBatch-1]
				alsoSync := mode == "c17" && rnd.Intn(2) == 0
				go func() {
					actx := context.WithValue(bg, procKey{}, "A")
					err := st.Append(actx, hs...)
					mu.Lock()
					appendBusy = false
					if err != nil && !stopCalled {
						errs = append(errs, "append: "+err.Error())
					}
					if err == nil {
						for _, h := range batch {
							returned[h] = true
						}
					}
					mu.Unlock()
					if err == nil && alsoSync {
						// C17: every header whose Append has been followed by Sync is readable
						if err := st.Sync(actx); err != nil {
							mu.Lock()
							errs = append(errs, "sync: "+err.Error())
							mu.Unlock()
							return
						}
						for _, h := range hs {
							if c.delTo > 0 && int(h.Height()) < c.delTo {
								continue // may legitimately be pruned by the racing deleter
							}
							if _, err := st.Get(context.WithValue(bg, procKey{}, "X"), h.Hash()); err != nil {
								mu.Lock()
								syncedBad++
								mu.Unlock()
							}
							// ... by height as well (wherever the chunk landed relative to Tail and Head)
							xctx, xcancel := context.WithTimeout(context.WithValue(bg, procKey{}, "X"), time.Millisecond)
							if g, err := st.GetByHeight(xctx, h.Height()); err != nil || g.Hash().String() != h.Hash().String() {
								mu.Lock()
								syncedBad++
								mu.Unlock()
							}
							xcancel()
						}
					}
				}()
			case "sync":
				nextSync--
				k := nextSync
				go func() {
					if err := st.Sync(context.WithValue(bg, procKey{}, fmt.Sprintf("S%d", k))); err != nil {
						mu.Lock()
						errs = append(errs, "sync: "+err.Error())
						mu.Unlock()
					}
				}()
			case "delete":
				delLeft = false
				if h := int(st.Height()); h >= 2 && (rnd.Intn(2) == 0 || (preempt && victimKind == "delete" && rnd.Intn(2) == 0)) {
					c.delTo = h // everything below the current head: the deletion ends right under a head that appends are moving
				}
				if preempt && victimKind == "delete" && rnd.Intn(2) == 0 {
					// stop the deleter between the lookup and the first datastore write of one header of the range
					victimSteps, hotHeight = 1000, 1+rnd.Intn(c.delTo-1)
				}
				go func() {
					dctx := context.WithValue(bg, procKey{}, "D")
					x := context.WithValue(bg, procKey{}, "X")
					// may legitimately fail (range above the head when headers are missing): not judged
					err := st.DeleteRange(dctx, 1, uint64(c.delTo))
					for k := 0; err != nil && c.delFail > 0 && k < 3; k++ {
						// the failed attempt must leave a tail that is stored (everything below it is gone, it is not), then
						// the deletion is retried from there
						tl, terr := st.Tail(x)
						if terr != nil {
							break
						}
						if _, gerr := st.Get(x, tl.Hash()); gerr != nil {
							mu.Lock()
							tailBad++
							mu.Unlock()
						}
						if tl.Height() >= uint64(c.delTo) {
							err = nil
							break
						}
						err = st.DeleteRange(dctx, tl.Height(), uint64(c.delTo))
					}
					if err == nil {
						mu.Lock()
						delOK = true
						mu.Unlock()
					}
				}()
			case "wipe":
				wipeLeft = false
				// first let everything that is under way finish (readers that found nothing stay parked in their wait)
				for k := 0; k < 2000; k++ {
					sc.mu.Lock()
					var p0 string
					for p := range sc.gates {
						if p0 == "" || p < p0 {
							p0 = p
						}
					}
					sc.mu.Unlock()
					if p0 == "" {
						break
					}
					sc.release(p0)
				}
				if st.Height() == 0 {
					break
				}
				x := context.WithValue(bg, procKey{}, "X")
				// the deletion itself is not what is explored here: every gate is open while it runs
				sc.mu.Lock()
				sc.pass = true
				sc.mu.Unlock()
				tl, terr := st.Tail(x)
				hd, herr := st.Head(x)
				if terr == nil && herr == nil {
					if err := st.DeleteRange(x, tl.Height(), hd.Height()+1); err == nil {
						for h := range stored {
							delete(stored, h)
						}
					}
				}
				synctest.Wait()
				sc.mu.Lock()
				sc.pass = false
				sc.mu.Unlock()
			case "stop":
				stopLeft = false
				mu.Lock()
				stopCalled = true
				for h := range returned {
					returnedBeforeStop = append(returnedBeforeStop, h)
				}
				mu.Unlock()
				go func() {
					_ = st.Stop(context.WithValue(bg, procKey{}, "T"))
					mu.Lock()
					stopDone = true
					mu.Unlock()
				}()
			}
			synctest.Wait()
			observe()
			rec0.Steps++
		}
		// drain: readers first, then everything; writer runs until idle
		sc.drain()
		if c.stopMid {
			// C06: Stop was called in the middle (or is called now); the store is reopened on the same datastore and must
			// hold every header whose Append had returned before Stop was called
			if !stopCalled {
				mu.Lock()
				stopCalled = true
				for h := range returned {
					returnedBeforeStop = append(returnedBeforeStop, h)
				}
				mu.Unlock()
				_ = st.Stop(context.WithValue(bg, procKey{}, "X"))
				stopDone = true
			}
			time.Sleep(time.Minute)
			synctest.Wait()
			mu.Lock()
			done := stopDone
			mu.Unlock()
			rec0.Kind = "stop"
			rec0.StopHung = !done
			store.VerifHook = nil
			rs.Gate = nil
			st2, err := store.NewStore[*vh.Header](rs, store.WithWriteBatchSize(c.bsz))
			if err == nil {
				err = st2.Start(bg)
			}
			if err != nil {
				rec0.ReopenErr = err.Error()
			} else {
				synctest.Wait()
				sort.Ints(returnedBeforeStop)
				rec0.ReturnedBeforeStop = append([]int{}, returnedBeforeStop...)
				rec0.Lost = []int{}
				for _, h := range returnedBeforeStop {
					ctx, cancel := context.WithTimeout(bg, time.Millisecond)
					_, err1 := st2.Get(ctx, chain.At(uint64(h)).Hash())
					cancel()
					if err1 != nil {
						rec0.Lost = append(rec0.Lost, h)
					}
				}
				if hd, err := st2.Head(bg); err == nil {
					rec0.Head = int(hd.Height())
					// Head is the top of the contiguous run: the next height is not stored
					ctx, cancel := context.WithTimeout(bg, time.Millisecond)
					if _, err := st2.Get(ctx, chain.At(hd.Height()+1).Hash()); err == nil {
						rec0.HeadBelowRun = true
					}
					cancel()
				}
				_ = st2.Stop(bg)
				synctest.Wait()
			}
			return
		}
		_ = st.Sync(context.WithValue(bg, procKey{}, "X"))
		synctest.Wait()
		observe()
		mu.Lock()
		blocked := map[int]bool{}
		for _, r := range readers {
			if r.started && !r.done {
				blocked[r.id] = true
			}
		}
		mu.Unlock()
		for _, r := range readers {
			if r.started {
				r.cancel()
			}
		}
		synctest.Wait()
		mu.Lock()
		for _, r := range readers {
			out := RdrOut{ID: r.id, Want: r.want, Started: r.started, Res: r.res, BadHeader: r.badHdr, BlockedAfter: blocked[r.id]}
			if !r.started {
				out.Res = "none"
			} else if !r.done {
				out.Res = "blocked"
			}
			out.ReleasedByCtx = blocked[r.id] && r.done
			out.SubAfterNotify = sc.late[fmt.Sprintf("R%d", r.id)]
			rec0.Readers = append(rec0.Readers, out)
		}
		if len(errs) > 0 {
			fatal = errs[0]
		}
		mu.Unlock()
		for h := range appended {
			if appended[h] {
				rec0.Appended = append(rec0.Appended, h)
			}
		}
		sort.Ints(rec0.Appended)
		rec0.Stored = []int{}
		for h := range stored {
			rec0.Stored = append(rec0.Stored, h)
		}
		sort.Ints(rec0.Stored)
		x := context.WithValue(bg, procKey{}, "X")
		if hd, _ := st.Head(x); hd != nil {
			rec0.Head = int(hd.Height())
		}
		rec0.Height = int(st.Height())
		if mode == "c17" {
			// final state: Tail where the last successful delete left it, gap-free up to Head
			rec0.Kind = "c17free"
			mu.Lock()
			rec0.SyncedBad = syncedBad
			rec0.TailBad = tailBad
			rec0.TailWant = c.start // the bottom of the run of appended heights around the first header
			for rec0.TailWant > 1 && appended[rec0.TailWant-1] {
				rec0.TailWant--
			}
			if delOK {
				rec0.TailWant = c.delTo
			}
			mu.Unlock()
			if tl, _ := st.Tail(x); tl != nil {
				rec0.FinalTail = int(tl.Height())
			}
			// everything has been appended and synced: Head is the top of the run of appended heights that starts at 1
			rec0.HeadWant = c.start
			for appended[rec0.HeadWant+1] {
				rec0.HeadWant++
			}
			rec0.Missing = []int{}
			for h := rec0.FinalTail; h >= 1 && h <= rec0.Head; h++ {
				ctx, cancel := context.WithTimeout(x, time.Millisecond)
				if _, err := st.GetByHeight(ctx, uint64(h)); err != nil {
					rec0.Missing = append(rec0.Missing, h)
				}
				cancel()
			}
			// ... and the same after a clean restart on the same datastore
			store.VerifHook = nil
			rs.Gate = nil
			_ = st.Stop(bg)
			synctest.Wait()
			rec0.RestartHead, rec0.RestartTail = -1, -1
			if st2, err := store.NewStore[*vh.Header](rs, store.WithWriteBatchSize(c.bsz)); err == nil && st2.Start(bg) == nil {
				synctest.Wait()
				rec0.RestartHead, rec0.RestartTail = 0, 0
				if hd, err := st2.Head(bg); err == nil {
					rec0.RestartHead = int(hd.Height())
				}
				if tl, err := st2.Tail(bg); err == nil {
					rec0.RestartTail = int(tl.Height())
				}
				_ = st2.Stop(bg)
				synctest.Wait()
			}
			return
		}
		store.VerifHook = nil
		rs.Gate = nil
		_ = st.Stop(bg)
		synctest.Wait()
	})
	rec0.Cfg = fmt.Sprintf("n=%d bsz=%d wants=%v script=%v syncs=%d delTo=%d delFail=%d delPar=%v late=%v empty=%v wipe=%v stopMid=%v preempt=%v", c.n, c.bsz, c.wants, c.script, c.syncs, c.delTo, c.delFail, c.delPar, c.late, c.empty, c.wipe, c.stopMid, id%2 == 1)
	return rec0, fatal
}

func TestExplore(t *testing.T) {
	path := os.Getenv("VH_TRACE")
	if path == "" {
		t.Skip("VH_TRACE not set")
	}
	tw, err := mbt.NewWriter(path)
	if err != nil {
		t.Fatal(err)
	}
	defer tw.Close()
	rw, err := mbt.NewWriter(os.Getenv("VH_OUT"))
	if err != nil {
		t.Fatal(err)
	}
	defer rw.Close()
	runs, _ := strconv.Atoi(mbt.Env("VH_RUNS", "50"))
	base, _ := strconv.Atoi(mbt.Env("VH_IDBASE", "0"))
	seed, _ := strconv.ParseInt(mbt.Env("VERIF_SEED", "1"), 10, 64)
	mode := mbt.Env("VH_MODE", "c12")
	for i := 0; i < runs; i++ {
		id := base + i
		rnd := rand.New(rand.NewSource(seed*1000003 + int64(id)))
		r, fatal := exploreOnce(t, id, rnd, mode)
		res := mbt.Result{ID: id, Key: r.Cfg + fmt.Sprint(r.HeadSeq, r.Steps), NonTriv: r.Steps > 4, Verdict: "ok"}
		if fatal != "" {
			res.Verdict, res.Detail = "violation", fmt.Sprintf("operation failed unexpectedly in free schedule %d (%s): %s", id, r.Cfg, fatal)
			res.Sig = map[string]any{"family": "conc", "symptom": "operation_failed", "mode": "explore"}
		}
		tw.Put(r)
		rw.Put(res)
	}
	if mode == "c12" {
		// a few directed histories next to the walks: a store that is filled, wiped as a whole and filled again with a
		// SHORTER chain; a reader of a height above the new head waits for it and is woken when it arrives
		for k := 0; k < 4; k++ {
			id := base + runs + k
			r := refillOnce(t, id, k)
			tw.Put(r)
			rw.Put(mbt.Result{ID: id, Key: r.Cfg, NonTriv: true, Verdict: "ok"})
		}
	}
}

func refillOnce(t *testing.T, id, k int) Record {
	rec0 := Record{Tr: id, Kind: "refill", Readers: []RdrOut{}, Appended: []int{}, HeadSeq: []int{}, HsSeq: []int{}, Stored: []int{}, Missing: []int{},
		ReturnedBeforeStop: []int{}, Lost: []int{}, RefillEarly: "none", RefillFinal: "none"}
	n, short := 6+k, 2+k%3
	want := short + 2
	rec0.Cfg = fmt.Sprintf("refill: fill 1..%d, wipe, fill 1..%d, read %d, append %d..%d", n, short, want, short+1, want)
	synctest.Test(t, func(t *testing.T) {
		chain := vh.NewChain("c", 1, 16, time.Now().Add(-time.Hour), time.Second, 0)
		st, err := store.NewStore[*vh.Header](rec.New(), store.WithWriteBatchSize([]int{1, 3, 64}[k%3]))
		if err != nil {
			return
		}
		bg := context.Background()
		if st.Start(bg) != nil {
			return
		}
		_ = st.Append(bg, chain.Range(1, uint64(n+1))...)
		_ = st.Sync(bg)
		if err := st.DeleteRange(bg, 1, uint64(n+1)); err != nil {
			rec0.RefillFinal = "wipe: " + err.Error()
			return
		}
		_ = st.Append(bg, chain.Range(1, uint64(short+1))...)
		_ = st.Sync(bg)
		synctest.Wait()
		if hd, err := st.Head(bg); err == nil {
			rec0.Head = int(hd.Height())
		}
		rec0.Height = int(st.Height())
		res := make(chan string, 1)
		go func() {
			ctx, cancel := context.WithTimeout(bg, time.Hour)
			defer cancel()
			h, err := st.GetByHeight(ctx, uint64(want))
			switch {
			case err == nil && h != nil && int(h.Height()) == want && chain.IsCanon(h):
				res <- "ok"
			case errors.Is(err, header.ErrNotFound):
				res <- "notfound"
			case err != nil:
				res <- "other:" + err.Error()
			default:
				res <- "badheader"
			}
		}()
		synctest.Wait()
		select {
		case r := <-res: // it did not wait
			rec0.RefillEarly, rec0.RefillFinal = r, r
		default:
			_ = st.Append(bg, chain.Range(uint64(short+1), uint64(want+1))...)
			_ = st.Sync(bg)
			synctest.Wait()
			select {
			case r := <-res:
				rec0.RefillFinal = r
			default:
				rec0.RefillFinal = "blocked"
			}
		}
		_ = st.Stop(bg)
		synctest.Wait()
	})
	return rec0
}
