package verifyh

import (
	"errors"
	"fmt"
	"os"
	"strings"
	"testing"
	"testing/synctest"
	"time"

	header "github.com/celestiaorg/go-header"

	"verifharness/mbt"
	"verifharness/vh"
)

var sentinels = []struct {
	name string
	err  error
}{
	{"ErrZeroHeader", header.ErrZeroHeader},
	{"ErrWrongChainID", header.ErrWrongChainID},
	{"ErrKnownHeader", header.ErrKnownHeader},
	{"ErrUnorderedTime", header.ErrUnorderedTime},
	{"ErrFromFuture", header.ErrFromFuture},
}

type obs01 struct {
	OK   bool   `json:"ok"`
	VE   bool   `json:"ve"`
	Sent string `json:"sent"`
	Type bool   `json:"type"`
	Soft bool   `json:"soft"`
}

func classify(err error) obs01 {
	if err == nil {
		return obs01{OK: true}
	}
	var o obs01
	_, o.VE = err.(*header.VerifyError)
	var names []string
	for _, s := range sentinels {
		if errors.Is(err, s.err) {
			names = append(names, s.name)
		}
	}
	o.Sent = strings.Join(names, ",")
	o.Type = errors.Is(err, vh.ErrType)
	var ve *header.VerifyError
	if errors.As(err, &ve) {
		o.Soft = ve.SoftFailure
	}
	return o
}

type variant struct {
	trustedH uint64
	within   time.Duration // offset of "within" untrusted time relative to now+drift (negative)
	gap      uint64        // distance for gt1
	chain    string        // the trusted header's chain id
	other    string        // a different chain id (used when the input says the ids differ)
	foreign  bool          // the untrusted header does not link to the trusted one (LastHeader is some other hash): whether a
	// header at height+1 is "adjacent" is a matter of heights only; what the link is worth is the header type's verdict
}

func variants(thorough bool) []variant {
	// the second quick variant differs from the first only in what "a different chain id" looks like: ids are compared
	// as exact strings, so an id that differs in case only is a different chain
	v := []variant{{100, -11 * time.Second, 5, "c", "other", false}, {100, -11 * time.Second, 5, "mocha-4", "Mocha-4", true},
		{100, -11 * time.Second, 5, "c", "", false}} // (an untrusted header that names no chain at all)
	if thorough {
		v = append(v,
			variant{1, -time.Nanosecond, 2, "c", "C", false},
			variant{1 << 63, -10 * time.Second, 1 << 62, "kchain", "\u212achain", true},
			variant{^uint64(0) - 2, -time.Hour, 2, "c", "c ", false},
			variant{7, -365 * 24 * time.Hour, 1000000, "c", "cc", true},
		)
	}
	return v
}

func build01(in map[string]any, v variant, now time.Time, drift time.Duration) (t, u *vh.Header) {
	var ut time.Time
	switch mbt.Str(in, "nowRel") {
	case "within":
		ut = now.Add(drift).Add(v.within)
	case "atDrift":
		ut = now.Add(drift)
	case "beyond":
		ut = now.Add(drift).Add(time.Nanosecond)
	}
	var tt time.Time
	switch mbt.Str(in, "tRel") {
	case "before":
		tt = ut.Add(time.Nanosecond)
	case "equal":
		tt = ut
	case "after":
		tt = ut.Add(-time.Second)
	}
	var uh uint64
	switch mbt.Str(in, "hRel") {
	case "lt":
		uh = v.trustedH - 1
	case "eq":
		uh = v.trustedH
	case "plus1":
		uh = v.trustedH + 1
	case "gt1":
		uh = v.trustedH + v.gap
	}
	t = &vh.Header{Chain: v.chain, H: v.trustedH, T: tt.UnixNano()}
	chain := v.chain
	if !mbt.Bool(in, "chainEq") {
		chain = v.other
	}
	prev := t.Hash()
	if v.foreign {
		prev = (&vh.Header{Chain: "elsewhere", H: 1, T: 1}).Hash()
	}
	u = &vh.Header{Chain: chain, H: uh, T: ut.UnixNano(), Prev: prev, TypeRes: mbt.Str(in, "typeRes")}
	if mbt.Bool(in, "tZero") {
		t = nil
	}
	if mbt.Bool(in, "uZero") {
		u = nil
	}
	return t, u
}

func safeVerify(t, u *vh.Header) (err error, panicked any) {
	defer func() {
		if r := recover(); r != nil {
			panicked = r
		}
	}()
	return header.Verify(t, u), nil
}

func run01(id int, c map[string]any, thorough bool, w *mbt.Writer) {
	in := mbt.Map(c, "in")
	now := time.Now()
	drift := header.VerifClockDrift()
	for vi, v := range variants(thorough) {
		t, u := build01(in, v, now, drift)
		err, p := safeVerify(t, u)
		res := mbt.Result{ID: id, Key: mbt.J(in)}
		sig := map[string]any{"family": "C01", "in": in, "variant": vi}
		if p != nil {
			res.Verdict, res.Sig, res.Detail = "violation", sig, fmt.Sprintf("panic: %v", p)
			sig["symptom"] = "panic"
			w.Put(res)
			continue
		}
		o := classify(err)
		res.Obs = o
		res.NonTriv = !o.OK
		switch {
		case !mbt.In(o, c["allowed"]):
			sig["symptom"] = "outside_allowed"
			res.Verdict, res.Sig = "violation", sig
			res.Detail = fmt.Sprintf("observed %s not in allowed %s (err=%v)", mbt.J(o), mbt.J(c["allowed"]), err)
		case !mbt.Eq(o, c["predicted"]):
			res.Verdict = "drift"
			res.Detail = fmt.Sprintf("observed %s, predicted %s", mbt.J(o), mbt.J(c["predicted"]))
		default:
			res.Verdict = "ok"
		}
		w.Put(res)
	}
}

type obs02 struct {
	N      int    `json:"n"`
	NilErr bool   `json:"nilerr"`
	Cls    string `json:"cls"`
}

func build02(c map[string]any, now time.Time, drift time.Duration) (*vh.Header, []*vh.Header) {
	base := now.Add(-time.Hour)
	trusted := &vh.Header{Chain: "c", H: 100, T: base.UnixNano()}
	tMax := mbt.Bool(c, "tMax") // the trusted header has the highest possible height: every height is known
	if tMax {
		trusted.H = ^uint64(0)
	}
	cur := trusted
	var seq []*vh.Header
	ahead := 0
	for _, k := range mbt.Strs(c["seq"]) {
		var e *vh.Header
		switch k {
		case "ok1":
			e = &vh.Header{Chain: "c", H: cur.H + 1, T: cur.T + int64(time.Second), Prev: cur.Hash()}
			if tMax && cur == trusted {
				e.H = 5 // (a range that starts over at a small height)
			}
			cur = e
		case "ahead": // hash-linked, adjacent, dated 8 s per element ahead of the local clock: only the first is within the allowed drift
			ahead++
			e = &vh.Header{Chain: "c", H: cur.H + 1, T: now.Add(time.Duration(8*ahead) * time.Second).UnixNano(), Prev: cur.Hash()}
			cur = e
		case "ok2":
			e = &vh.Header{Chain: "c", H: cur.H + 2, T: cur.T + int64(time.Second), Prev: cur.Hash()}
			cur = e
		case "same":
			e = &vh.Header{Chain: "c", H: cur.H, T: cur.T + int64(time.Second), Prev: cur.Prev, Salt: 1}
		case "lower":
			e = &vh.Header{Chain: "c", H: cur.H - 1, T: cur.T + int64(time.Second), Salt: 2}
		case "zero":
			e = nil
		case "wrongchain":
			// (a chain id that differs in case only is a different chain as well)
			e = &vh.Header{Chain: []string{"other", "C"}[len(seq)%2], H: cur.H + 1, T: cur.T + int64(time.Second), Prev: cur.Hash()}
		case "timeback":
			e = &vh.Header{Chain: "c", H: cur.H + 1, T: cur.T - int64(time.Second), Prev: cur.Hash()}
		case "future":
			e = &vh.Header{Chain: "c", H: cur.H + 1, T: now.Add(drift).Add(time.Second).UnixNano(), Prev: cur.Hash()}
		case "typehard":
			e = &vh.Header{Chain: "c", H: cur.H + 1, T: cur.T + int64(time.Second), Prev: cur.Hash(), TypeRes: "plain"}
		case "typesoft":
			e = &vh.Header{Chain: "c", H: cur.H + 2, T: cur.T + int64(time.Second), Prev: cur.Hash(), TypeRes: "plain"}
		default:
			panic("unknown kind " + k)
		}
		seq = append(seq, e)
	}
	if mbt.Bool(c, "tZero") {
		trusted = nil
	}
	return trusted, seq
}

func cls02(err error) string {
	if err == nil {
		return ""
	}
	switch {
	case errors.Is(err, header.ErrEmptyRange):
		return "ErrEmptyRange"
	case errors.Is(err, header.ErrNonAdjacentRange):
		return "ErrNonAdjacentRange"
	}
	o := classify(err)
	if o.Sent != "" {
		return o.Sent
	}
	if o.Type {
		if o.Soft {
			return "typesoft"
		}
		return "type"
	}
	return "other"
}

func run02(id int, c map[string]any, w *mbt.Writer) {
	now := time.Now()
	trusted, seq := build02(c, now, header.VerifClockDrift())
	res := mbt.Result{ID: id, Key: mbt.J(c["seq"]) + fmt.Sprint(c["tZero"])}
	sig := map[string]any{"family": "C02", "seq": c["seq"], "tZero": c["tZero"]}
	var got []*vh.Header
	var err error
	var p any
	func() {
		defer func() {
			if r := recover(); r != nil {
				p = r
			}
		}()
		got, err = header.VerifyRange(trusted, seq)
	}()
	if p != nil {
		sig["symptom"] = "panic"
		res.Verdict, res.Sig, res.Detail = "violation", sig, fmt.Sprintf("panic: %v", p)
		w.Put(res)
		return
	}
	o := obs02{N: len(got), NilErr: err == nil, Cls: cls02(err)}
	prefix := len(got) <= len(seq)
	for i := 0; prefix && i < len(got); i++ {
		if got[i] != seq[i] {
			prefix = false
		}
	}
	res.Obs = o
	res.NonTriv = err != nil
	wantNil := o.N == len(seq) && len(seq) > 0
	switch {
	case !prefix:
		sig["symptom"] = "not_a_prefix"
		res.Verdict, res.Sig, res.Detail = "violation", sig, fmt.Sprintf("result of length %d is not a prefix of the input", len(got))
	case !mbt.HasInt(mbt.Ints(c["allowedN"]), o.N) || o.NilErr != wantNil:
		sig["symptom"] = "outside_allowed"
		res.Verdict, res.Sig = "violation", sig
		res.Detail = fmt.Sprintf("observed %s; allowed n=%v with nil error iff whole non-empty input (err=%v)", mbt.J(o), c["allowedN"], err)
	case !mbt.Eq(o, c["predicted"]):
		res.Verdict = "drift"
		res.Detail = fmt.Sprintf("observed %s, predicted %s", mbt.J(o), mbt.J(c["predicted"]))
	default:
		res.Verdict = "ok"
	}
	w.Put(res)
}

func TestReplay(t *testing.T) {
	path := os.Getenv("VH_CASES")
	if path == "" {
		t.Skip("VH_CASES not set")
	}
	cases, err := mbt.ReadCases(path)
	if err != nil {
		t.Fatal(err)
	}
	w, err := mbt.NewWriter(os.Getenv("VH_OUT"))
	if err != nil {
		t.Fatal(err)
	}
	defer w.Close()
	thorough := os.Getenv("VERIF_TIER") == "thorough"
	synctest.Test(t, func(t *testing.T) {
		for i, c := range cases {
			switch mbt.Str(c, "k") {
			case "C01":
				run01(i, c, thorough, w)
			case "C02":
				run02(i, c, w)
			}
		}
	})
}
