// Package vh is the header type used by every conformance driver: unlike
// headertest.DummyHeader it has real hash links, a Validate that can fail and a
// scriptable type-level Verify, so "invalid", "forged" and "forked" headers exist.
package vh

import (
	"crypto/sha256"
	"encoding/json"
	"errors"
	"fmt"
	"sync"
	"time"

	header "github.com/celestiaorg/go-header"
)

// ErrType is the sentinel wrapped by every scripted type-level rejection.
var ErrType = errors.New("vh: type-level verification failed")

// ErrInvalid is returned by Validate for headers flagged Invalid.
var ErrInvalid = errors.New("vh: invalid header")

// Header is a hash-linked test header.
type Header struct {
	Chain   string      `json:"chain"`
	H       uint64      `json:"h"`
	T       int64       `json:"t"` // unix nanos
	Prev    header.Hash `json:"prev"`
	Epoch   uint64      `json:"epoch"`
	BadSig  bool        `json:"badsig,omitempty"`  // forged: fails every type-level check
	Invalid bool        `json:"invalid,omitempty"` // fails Validate
	// InvalidSoft / DecodeSoft: Validate / UnmarshalBinary fail with a *header.VerifyError that has SoftFailure set (a
	// header type may report its own failures that way; only the verifier's soft failures mean "ignore")
	InvalidSoft bool `json:"invalidsoft,omitempty"`
	DecodeSoft  bool `json:"decodesoft,omitempty"`
	Salt    uint64      `json:"salt,omitempty"`    // distinguishes forks
	// TypeRes scripts the result of the type-level Verify when this header is the
	// *untrusted* argument: "" (default rule), "nil", "plain", "bareHard", "bareSoft",
	// "wrapHard", "wrapSoft", "panic".
	TypeRes string `json:"typeres,omitempty"`
	// DecodePanic makes UnmarshalBinary panic after decoding (C11).
	DecodePanic bool `json:"decodepanic,omitempty"`

	hashOnce sync.Once
	hash     header.Hash
}

// Trust is the non-adjacent trust predicate (installed per test; default: epochs within 1).
var Trust = func(t, u *Header) bool {
	d := int64(u.Epoch) - int64(t.Epoch)
	if d < 0 {
		d = -d
	}
	return d <= 1
}

// VerifyCalls counts type-level Verify calls (diagnostics).
var VerifyCalls int64

func (h *Header) New() *Header { return new(Header) }

func (h *Header) IsZero() bool { return h == nil }

func (h *Header) ChainID() string { return h.Chain }

func (h *Header) Height() uint64 { return h.H }

func (h *Header) LastHeader() header.Hash { return h.Prev }

func (h *Header) Time() time.Time { return time.Unix(0, h.T).UTC() }

func (h *Header) Hash() header.Hash {
	h.hashOnce.Do(func() {
		b, err := json.Marshal(h)
		if err != nil {
			panic(err)
		}
		s := sha256.Sum256(b)
		h.hash = s[:]
	})
	return h.hash
}

func (h *Header) Validate() error {
	if h.InvalidSoft {
		return fmt.Errorf("vh: invalid: %w", &header.VerifyError{Reason: ErrInvalid, SoftFailure: true})
	}
	if h.Invalid {
		return ErrInvalid
	}
	return nil
}

func (h *Header) MarshalBinary() ([]byte, error) { return json.Marshal(h) }

func (h *Header) UnmarshalBinary(b []byte) error {
	var tmp Header
	if err := json.Unmarshal(b, &tmp); err != nil {
		return err
	}
	if tmp.Chain == "" && tmp.H == 0 {
		return errors.New("vh: not a header")
	}
	if tmp.DecodeSoft {
		return &header.VerifyError{Reason: errors.New("vh: scripted decode failure"), SoftFailure: true}
	}
	h.Chain, h.H, h.T, h.Prev, h.Epoch = tmp.Chain, tmp.H, tmp.T, tmp.Prev, tmp.Epoch
	h.BadSig, h.Invalid, h.Salt, h.TypeRes, h.DecodePanic = tmp.BadSig, tmp.Invalid, tmp.Salt, tmp.TypeRes, tmp.DecodePanic
	h.InvalidSoft = tmp.InvalidSoft
	if h.DecodePanic {
		panic("vh: scripted decode panic")
	}
	return nil
}

// Verify is the type-level check: h is trusted, u untrusted.
func (h *Header) Verify(u *Header) error {
	VerifyCalls++
	switch u.TypeRes {
	case "nil":
		return nil
	case "plain":
		return fmt.Errorf("plain: %w", ErrType)
	case "bareHard":
		return &header.VerifyError{Reason: ErrType}
	case "bareSoft":
		return &header.VerifyError{Reason: ErrType, SoftFailure: true}
	case "wrapHard":
		return fmt.Errorf("wrapped: %w", &header.VerifyError{Reason: ErrType})
	case "wrapSoft":
		return fmt.Errorf("wrapped: %w", &header.VerifyError{Reason: ErrType, SoftFailure: true})
	case "panic":
		panic("vh: scripted verify panic")
	}
	if u.BadSig {
		return fmt.Errorf("bad signature: %w", ErrType)
	}
	if u.H == h.H+1 {
		if string(u.Prev) != string(h.Hash()) {
			return fmt.Errorf("broken hash link: %w", ErrType)
		}
		return nil
	}
	if !Trust(h, u) {
		return fmt.Errorf("outside trust range: %w", ErrType)
	}
	return nil
}

var _ header.Header[*Header] = (*Header)(nil)

// Chain is a generated canonical chain; index i holds height i+1... use At.
type Chain struct {
	ID      string
	Headers []*Header // Headers[0] has height First
	First   uint64
	byHash  map[string]*Header
}

// NewChain builds n hash-linked headers first..first+n-1; time(h) = t0 + (h-first)*spacing,
// epoch(h) = h / epochLen (epochLen 0 → all epoch 0).
func NewChain(id string, first uint64, n int, t0 time.Time, spacing time.Duration, epochLen uint64) *Chain {
	c := &Chain{ID: id, First: first, byHash: map[string]*Header{}}
	var prev header.Hash
	for i := 0; i < n; i++ {
		h := &Header{Chain: id, H: first + uint64(i), T: t0.Add(time.Duration(i) * spacing).UnixNano(), Prev: prev}
		if epochLen > 0 {
			h.Epoch = h.H / epochLen
		}
		c.add(h)
		prev = h.Hash()
	}
	return c
}

// NewChainTimes builds a chain with explicit times (unix nanos).
func NewChainTimes(id string, first uint64, times []int64) *Chain {
	c := &Chain{ID: id, First: first, byHash: map[string]*Header{}}
	var prev header.Hash
	for i, t := range times {
		h := &Header{Chain: id, H: first + uint64(i), T: t, Prev: prev}
		c.add(h)
		prev = h.Hash()
	}
	return c
}

func (c *Chain) add(h *Header) {
	c.Headers = append(c.Headers, h)
	c.byHash[string(h.Hash())] = h
}

// Extend appends k more headers with the given spacing.
func (c *Chain) Extend(k int, spacing time.Duration, epochLen uint64) {
	for i := 0; i < k; i++ {
		last := c.Headers[len(c.Headers)-1]
		h := &Header{Chain: c.ID, H: last.H + 1, T: last.T + int64(spacing), Prev: last.Hash()}
		if epochLen > 0 {
			h.Epoch = h.H / epochLen
		}
		c.add(h)
	}
}

// At returns the header of the given height or nil.
func (c *Chain) At(height uint64) *Header {
	if height < c.First || height >= c.First+uint64(len(c.Headers)) {
		return nil
	}
	return c.Headers[height-c.First]
}

// Head returns the last header.
func (c *Chain) Head() *Header { return c.Headers[len(c.Headers)-1] }

// Range returns headers [from, to).
func (c *Chain) Range(from, to uint64) []*Header {
	var out []*Header
	for h := from; h < to; h++ {
		if x := c.At(h); x != nil {
			out = append(out, x)
		}
	}
	return out
}

// IsCanon reports whether x is exactly this chain's header at its height (by hash).
func (c *Chain) IsCanon(x *Header) bool {
	if x == nil {
		return false
	}
	y, ok := c.byHash[string(x.Hash())]
	return ok && y.H == x.H
}

// Forge returns a copy of the header at height with a bad signature (same link, different hash).
func (c *Chain) Forge(height uint64, salt uint64) *Header {
	o := c.At(height)
	return &Header{Chain: o.Chain, H: o.H, T: o.T, Prev: o.Prev, Epoch: o.Epoch, BadSig: true, Salt: salt}
}

// Fork returns a chain that shares this chain's headers below `from` and continues with different, equally valid
// headers (other hashes, same heights and times) from there on: what a node sees after a re-organisation.
func (c *Chain) Fork(from uint64, salt uint64) *Chain {
	f := &Chain{ID: c.ID, First: c.First, byHash: map[string]*Header{}}
	var prev header.Hash
	for _, o := range c.Headers {
		if o.H < from {
			f.add(o)
			prev = o.Hash()
			continue
		}
		h := &Header{Chain: o.Chain, H: o.H, T: o.T, Prev: prev, Epoch: o.Epoch, Salt: salt}
		f.add(h)
		prev = h.Hash()
	}
	return f
}

// Clone returns a field copy with fresh hash cache.
func (h *Header) Clone() *Header {
	return &Header{Chain: h.Chain, H: h.H, T: h.T, Prev: h.Prev, Epoch: h.Epoch, BadSig: h.BadSig,
		Invalid: h.Invalid, Salt: h.Salt, TypeRes: h.TypeRes, DecodePanic: h.DecodePanic, InvalidSoft: h.InvalidSoft}
}
