// Package rec provides recording, fault-injecting datastores: every direct Put/Delete and every
// Batch.Commit is one entry of a write log (the atomic units of C06), images can be materialised
// after any prefix of the log, writes can be failed by script.
package rec

import (
	"context"
	"errors"
	"sort"
	"sync"

	ds "github.com/ipfs/go-datastore"
	dsq "github.com/ipfs/go-datastore/query"
)

// ErrInjected is returned by a scripted write failure.
var ErrInjected = errors.New("rec: injected write failure")

// Op is one key mutation.
type Op struct {
	Del bool
	Key string
	Val []byte
}

// Entry is one atomic unit of the write log.
type Entry struct {
	Batch bool
	Ops   []Op
}

// Store is the recording datastore (plain flavour: Batching, no transactions).
type Store struct {
	mu   sync.Mutex
	m    map[string][]byte
	log  []Entry
	nw   int // write attempts so far (Put, Delete, Commit)
	fail map[int]bool
	nfailed int
	// Reads counts Get/Has calls (diagnostics for bounded-work checks).
	Reads int
	// Gate, when set, is called before and after every datastore operation, outside the store's own lock: the
	// schedule-exploring harness parks the calling goroutine there (point = ds.<op>.before|after).
	Gate func(ctx context.Context, point, key string)
	// HonourCtx makes every operation fail with the context's error once its context is done (as datastores
	// that talk to a network or to a database do; the plain in-memory behaviour ignores contexts).
	HonourCtx bool
}

// New returns an empty recording store.
func New() *Store { return &Store{m: map[string][]byte{}, fail: map[int]bool{}} }

// FromImage returns a store initialised with the given image and an empty log.
func FromImage(img map[string][]byte) *Store {
	s := New()
	for k, v := range img {
		s.m[k] = append([]byte(nil), v...)
	}
	return s
}

// FailWrites makes write attempts number from..from+n-1 (0-based, counted from now) fail.
func (s *Store) FailWrites(from, n int) {
	s.mu.Lock()
	defer s.mu.Unlock()
	for i := 0; i < n; i++ {
		s.fail[s.nw+from+i] = true
	}
}

// ClearFails disarms every scripted failure that has not fired yet.
func (s *Store) ClearFails() {
	s.mu.Lock()
	defer s.mu.Unlock()
	s.fail = map[int]bool{}
}

// Failed reports how many scripted failures have fired.
func (s *Store) Failed() int {
	s.mu.Lock()
	defer s.mu.Unlock()
	return s.nfailed
}

func (s *Store) attempt() error {
	i := s.nw
	s.nw++
	if s.fail[i] {
		s.nfailed++
		return ErrInjected
	}
	return nil
}

// Log returns a copy of the write log.
func (s *Store) Log() []Entry {
	s.mu.Lock()
	defer s.mu.Unlock()
	return append([]Entry(nil), s.log...)
}

// LogLen returns the current length of the write log.
func (s *Store) LogLen() int {
	s.mu.Lock()
	defer s.mu.Unlock()
	return len(s.log)
}

// Snapshot returns a copy of the current contents.
func (s *Store) Snapshot() map[string][]byte {
	s.mu.Lock()
	defer s.mu.Unlock()
	out := make(map[string][]byte, len(s.m))
	for k, v := range s.m {
		out[k] = v
	}
	return out
}

// Keys returns the sorted keys currently present.
func (s *Store) Keys() []string {
	s.mu.Lock()
	defer s.mu.Unlock()
	out := make([]string, 0, len(s.m))
	for k := range s.m {
		out = append(out, k)
	}
	sort.Strings(out)
	return out
}

// ImageAfter applies the first n entries of log to base and returns the image.
func ImageAfter(base map[string][]byte, log []Entry, n int) map[string][]byte {
	img := make(map[string][]byte, len(base))
	for k, v := range base {
		img[k] = v
	}
	for _, e := range log[:n] {
		for _, o := range e.Ops {
			if o.Del {
				delete(img, o.Key)
			} else {
				img[o.Key] = o.Val
			}
		}
	}
	return img
}

func (s *Store) gate(ctx context.Context, point, key string) {
	if g := s.Gate; g != nil {
		g(ctx, point, key)
	}
}

func (s *Store) Put(ctx context.Context, k ds.Key, v []byte) error {
	s.gate(ctx, "ds.put.before", k.String())
	defer s.gate(ctx, "ds.put.after", k.String())
	s.mu.Lock()
	defer s.mu.Unlock()
	if s.HonourCtx && ctx != nil && ctx.Err() != nil {
		return ctx.Err()
	}
	if err := s.attempt(); err != nil {
		return err
	}
	v = append([]byte(nil), v...)
	s.m[k.String()] = v
	s.log = append(s.log, Entry{Ops: []Op{{Key: k.String(), Val: v}}})
	return nil
}

func (s *Store) Delete(ctx context.Context, k ds.Key) error {
	s.gate(ctx, "ds.delete.before", k.String())
	defer s.gate(ctx, "ds.delete.after", k.String())
	s.mu.Lock()
	defer s.mu.Unlock()
	if s.HonourCtx && ctx != nil && ctx.Err() != nil {
		return ctx.Err()
	}
	if err := s.attempt(); err != nil {
		return err
	}
	delete(s.m, k.String())
	s.log = append(s.log, Entry{Ops: []Op{{Del: true, Key: k.String()}}})
	return nil
}

func (s *Store) Get(ctx context.Context, k ds.Key) ([]byte, error) {
	s.gate(ctx, "ds.get.before", k.String())
	defer s.gate(ctx, "ds.get.after", k.String())
	s.mu.Lock()
	defer s.mu.Unlock()
	if s.HonourCtx && ctx != nil && ctx.Err() != nil {
		return nil, ctx.Err()
	}
	s.Reads++
	v, ok := s.m[k.String()]
	if !ok {
		return nil, ds.ErrNotFound
	}
	return v, nil
}

func (s *Store) Has(ctx context.Context, k ds.Key) (bool, error) {
	s.gate(ctx, "ds.has.before", k.String())
	defer s.gate(ctx, "ds.has.after", k.String())
	s.mu.Lock()
	defer s.mu.Unlock()
	if s.HonourCtx && ctx != nil && ctx.Err() != nil {
		return false, ctx.Err()
	}
	s.Reads++
	_, ok := s.m[k.String()]
	return ok, nil
}

func (s *Store) GetSize(_ context.Context, k ds.Key) (int, error) {
	s.mu.Lock()
	defer s.mu.Unlock()
	v, ok := s.m[k.String()]
	if !ok {
		return -1, ds.ErrNotFound
	}
	return len(v), nil
}

func (s *Store) Query(_ context.Context, q dsq.Query) (dsq.Results, error) {
	s.mu.Lock()
	defer s.mu.Unlock()
	var es []dsq.Entry
	for k, v := range s.m {
		es = append(es, dsq.Entry{Key: k, Value: v, Size: len(v)})
	}
	r := dsq.ResultsWithEntries(q, es)
	return dsq.NaiveQueryApply(q, r), nil
}

func (s *Store) Sync(context.Context, ds.Key) error { return nil }
func (s *Store) Close() error                      { return nil }

type batch struct {
	s   *Store
	ops []Op
}

func (s *Store) Batch(context.Context) (ds.Batch, error) { return &batch{s: s}, nil }

func (b *batch) Put(_ context.Context, k ds.Key, v []byte) error {
	b.ops = append(b.ops, Op{Key: k.String(), Val: append([]byte(nil), v...)})
	return nil
}

func (b *batch) Delete(_ context.Context, k ds.Key) error {
	b.ops = append(b.ops, Op{Del: true, Key: k.String()})
	return nil
}

func (b *batch) Commit(ctx context.Context) error {
	b.s.gate(ctx, "ds.commit.before", "")
	defer b.s.gate(ctx, "ds.commit.after", "")
	b.s.mu.Lock()
	defer b.s.mu.Unlock()
	if b.s.HonourCtx && ctx != nil && ctx.Err() != nil {
		return ctx.Err()
	}
	if err := b.s.attempt(); err != nil {
		return err
	}
	if len(b.ops) == 0 {
		return nil
	}
	for _, o := range b.ops {
		if o.Del {
			delete(b.s.m, o.Key)
		} else {
			b.s.m[o.Key] = o.Val
		}
	}
	b.s.log = append(b.s.log, Entry{Batch: true, Ops: b.ops})
	b.ops = nil
	return nil
}

var _ ds.Batching = (*Store)(nil)

// TxnStore adds snapshot read transactions (context-aware flavour's inner store).
type TxnStore struct {
	*Store
	// Txns counts transactions opened.
	Txns int
}

// NewTxn returns an empty transactional recording store.
func NewTxn() *TxnStore { return &TxnStore{Store: New()} }

type txn struct {
	s    *Store
	snap map[string][]byte
	b    batch
}

func (t *TxnStore) NewTransaction(_ context.Context, _ bool) (ds.Txn, error) {
	t.Txns++
	return &txn{s: t.Store, snap: t.Store.Snapshot(), b: batch{s: t.Store}}, nil
}

func (t *txn) Get(_ context.Context, k ds.Key) ([]byte, error) {
	v, ok := t.snap[k.String()]
	if !ok {
		return nil, ds.ErrNotFound
	}
	return v, nil
}

func (t *txn) Has(_ context.Context, k ds.Key) (bool, error) {
	_, ok := t.snap[k.String()]
	return ok, nil
}

func (t *txn) GetSize(_ context.Context, k ds.Key) (int, error) {
	v, ok := t.snap[k.String()]
	if !ok {
		return -1, ds.ErrNotFound
	}
	return len(v), nil
}

func (t *txn) Query(_ context.Context, q dsq.Query) (dsq.Results, error) {
	var es []dsq.Entry
	for k, v := range t.snap {
		es = append(es, dsq.Entry{Key: k, Value: v, Size: len(v)})
	}
	return dsq.NaiveQueryApply(q, dsq.ResultsWithEntries(q, es)), nil
}

func (t *txn) Put(ctx context.Context, k ds.Key, v []byte) error { return t.b.Put(ctx, k, v) }
func (t *txn) Delete(ctx context.Context, k ds.Key) error        { return t.b.Delete(ctx, k) }
func (t *txn) Commit(ctx context.Context) error                  { return t.b.Commit(ctx) }
func (t *txn) Discard(context.Context)                           {}

var _ ds.TxnDatastore = (*TxnStore)(nil)
