// Package mbt holds the plumbing shared by the replay drivers: reading TLC-exported cases,
// writing per-case results, membership tests against the exported Allowed sets.
package mbt

import (
	"bufio"
	"encoding/json"
	"fmt"
	"os"
	"reflect"
	"sort"
	"strings"
)

// Result is one line of the driver's output.
type Result struct {
	ID      int            `json:"id"`
	Verdict string         `json:"verdict"` // ok | drift | violation | skip
	Sig     map[string]any `json:"sig,omitempty"`
	Obs     any            `json:"obs,omitempty"`
	Detail  string         `json:"detail,omitempty"`
	NonTriv bool           `json:"nontriv,omitempty"`
	Key     string         `json:"key,omitempty"` // distinctness key
}

// ReadCases loads an NDJSON file into generic maps.
func ReadCases(path string) ([]map[string]any, error) {
	f, err := os.Open(path)
	if err != nil {
		return nil, err
	}
	defer f.Close()
	var out []map[string]any
	sc := bufio.NewScanner(f)
	sc.Buffer(make([]byte, 1<<20), 1<<28)
	for sc.Scan() {
		line := strings.TrimSpace(sc.Text())
		if line == "" {
			continue
		}
		var m map[string]any
		if err := json.Unmarshal([]byte(line), &m); err != nil {
			return nil, fmt.Errorf("bad case line: %w", err)
		}
		out = append(out, m)
	}
	return out, sc.Err()
}

// Writer writes results as NDJSON.
type Writer struct {
	f *os.File
	w *bufio.Writer
}

func NewWriter(path string) (*Writer, error) {
	f, err := os.Create(path)
	if err != nil {
		return nil, err
	}
	return &Writer{f: f, w: bufio.NewWriter(f)}, nil
}

func (w *Writer) Put(r any) {
	b, err := json.Marshal(r)
	if err != nil {
		panic(err)
	}
	w.w.Write(b)
	w.w.WriteByte('\n')
	w.w.Flush()
}

func (w *Writer) Flush() { w.w.Flush() }

func (w *Writer) Close() {
	w.w.Flush()
	w.f.Close()
}

// Norm round-trips a value through JSON so that it can be compared with decoded cases.
func Norm(v any) any {
	b, err := json.Marshal(v)
	if err != nil {
		panic(err)
	}
	var out any
	if err := json.Unmarshal(b, &out); err != nil {
		panic(err)
	}
	return out
}

// In reports whether obs (any JSON-able value) equals one of the elements of allowed (decoded JSON list).
func In(obs any, allowed any) bool {
	list, ok := allowed.([]any)
	if !ok {
		return false
	}
	n := Norm(obs)
	for _, a := range list {
		if reflect.DeepEqual(n, a) {
			return true
		}
	}
	return false
}

// Eq compares obs with a decoded JSON value.
func Eq(obs any, want any) bool { return reflect.DeepEqual(Norm(obs), want) }

// Str / Bool / Int / List accessors for decoded cases.
func Str(m map[string]any, k string) string {
	s, _ := m[k].(string)
	return s
}

func Bool(m map[string]any, k string) bool {
	b, _ := m[k].(bool)
	return b
}

func Int(m map[string]any, k string) int {
	switch v := m[k].(type) {
	case float64:
		return int(v)
	case int:
		return v
	}
	return 0
}

func Map(m map[string]any, k string) map[string]any {
	x, _ := m[k].(map[string]any)
	return x
}

func List(m map[string]any, k string) []any {
	x, _ := m[k].([]any)
	return x
}

func Ints(v any) []int {
	l, _ := v.([]any)
	out := make([]int, 0, len(l))
	for _, x := range l {
		if f, ok := x.(float64); ok {
			out = append(out, int(f))
		}
	}
	return out
}

func Strs(v any) []string {
	l, _ := v.([]any)
	out := make([]string, 0, len(l))
	for _, x := range l {
		if s, ok := x.(string); ok {
			out = append(out, s)
		}
	}
	return out
}

func HasInt(l []int, x int) bool {
	for _, y := range l {
		if x == y {
			return true
		}
	}
	return false
}

func SortedInts(m map[int]bool) []int {
	out := make([]int, 0, len(m))
	for k, v := range m {
		if v {
			out = append(out, k)
		}
	}
	sort.Ints(out)
	return out
}

// Env returns the environment variable or a default.
func Env(k, def string) string {
	if v := os.Getenv(k); v != "" {
		return v
	}
	return def
}

// J renders a value as compact JSON (for details).
func J(v any) string {
	b, _ := json.Marshal(v)
	return string(b)
}
