CONSTANTS Setters = {"S1", "S2"}
 Waiters = {"W1", "W2"}
 MaxH = 3
 MaxG = 3
 UseCAS = TRUE
 WithInit = FALSE
SPECIFICATION Spec
INVARIANTS OkWasAvailable OkIsStored ElapsedIsRight NoLostWakeup CancelReleases HeightIsStored
PROPERTIES HeightMonotone
CHECK_DEADLOCK FALSE
