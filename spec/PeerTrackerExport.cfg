CONSTANTS Peers = {1, 2, 3}
 MaxSize = 100
 MaxAwait = 1
 MaxTime = 3
 MaxEvents = 5
 Kinds = {"full"}
 Atomic = TRUE
INIT Init
NEXT Next
VIEW view
INVARIANTS TypeOK OneRecord TrackedAreConnected BlockedNotTracked ConnectedAreTracked RecordsHaveScore
CONSTRAINT ExportEdge
CHECK_DEADLOCK FALSE
