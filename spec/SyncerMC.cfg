CONSTANTS N = 6
 MaxReq = 64
 MaxFaults = 2
 MaxEvents = 5
SPECIFICATION Spec
VIEW view
INVARIANTS TargetReached PendingAboveStore StoreWithinLearned
PROPERTIES NothingLost
CHECK_DEADLOCK FALSE
