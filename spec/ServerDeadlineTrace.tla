------------------------ MODULE ServerDeadlineTrace ------------------------
(* C10 "neither panics nor hangs beyond its timeouts", for a peer that drains the answer slowly over a stream that     *)
(* honours deadlines (harness/p2ph TestServerDeadline): the request handler is done — answer written or stream reset —  *)
(* within RequestTimeout + WriteDeadline of virtual time, however many responses the answer consists of.               *)
EXTENDS Naturals, Sequences, TLC, Json, IOUtils
Trace == ndJsonDeserialize(IOEnv.TRACE)
VARIABLE l
If(c, name) == IF c THEN {name} ELSE {}
Clauses(r) ==
       If(r.panicked, "C10_no_request_can_crash_the_server")
  \cup If(r.hung \/ r.elapsedMs > r.budgetMs + 1000, "C10_does_not_hang_beyond_timeouts")
  \cup If(r.writes > 64, "C10_never_more_than_MaxRangeRequestSize_headers")
Init == l = 1
Next == /\ l <= Len(Trace)
        /\ LET F == Clauses(Trace[l]) IN IF F = {} THEN TRUE ELSE PrintT(ToJson([k |-> "FAIL", l |-> l, tr |-> Trace[l].tr, preds |-> F]))
        /\ l' = l + 1
Spec == Init /\ [][Next]_l
Consumed == TLCGet("stats").diameter - 1 = Len(Trace)
=============================================================================
