SPECIFICATION Spec
CONSTANTS
  N = 5
  MaxG = 2
  MaxH = 2
  MaxReq = 2
  ReadOrder = "store_pend"
  Fix = "max"
INVARIANTS TypeOK HeadMonotone
CHECK_DEADLOCK FALSE
