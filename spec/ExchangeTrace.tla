---------------------------- MODULE ExchangeTrace ----------------------------
(***************************************************************************)
(* Trace validation of real Exchange.GetRangeByHeight sessions (harness/   *)
(* p2ph TestRange) against the session model of Exchange.tla: every        *)
(* request a scripted peer received must be a sub-request the model has    *)
(* outstanding (Dispatch), every answer updates the outstanding set as     *)
(* Respond does, and the call's result is judged by the C05 / C18 clauses. *)
(* Events of many sessions are concatenated; "start" opens a session.      *)
(***************************************************************************)
EXTENDS Naturals, Sequences, FiniteSets, TLC, Json, IOUtils

Trace == ndJsonDeserialize(IOEnv.TRACE)
VARIABLES l, par, need, infl, got
vars == <<l, par, need, infl, got>>

SetOf(s) == {s[i] : i \in DOMAIN s}
Hts(a, n) == [i \in 1..n |-> a + i - 1]
If(c, name) == IF c THEN {name} ELSE {}
RECURSIVE Prepare(_, _, _)
Prepare(o, a, c) == IF a = 0 THEN {} ELSE IF a < c THEN {[o |-> o, a |-> a]}
                    ELSE {[o |-> o, a |-> c]} \cup Prepare(o + c, a - c, c)

NoPar == [from |-> 0, amount |-> 0, chunk |-> 1, mode |-> "", capable |-> FALSE, degenerate |-> FALSE]
Init == l = 1 /\ par = NoPar /\ need = {} /\ infl = {} /\ got = {}

Report(e, F) == IF F = {} THEN TRUE ELSE PrintT(ToJson([k |-> "FAIL", l |-> l, tr |-> e.tr, ev |-> e.ev, preds |-> F]))

IsPrefixOf(s, o, a) == Len(s) >= 1 /\ Len(s) <= a /\ s = Hts(o, Len(s))

Step ==
  /\ l <= Len(Trace)
  /\ LET e == Trace[l] IN
     CASE e.ev = "start" ->
            /\ par' = [from |-> e.from, amount |-> e.amount, chunk |-> e.chunk, mode |-> e.mode, capable |-> e.capable, degenerate |-> e.degenerate]
            /\ need' = IF e.degenerate THEN {} ELSE Prepare(e.from + 1, e.amount, e.chunk)
            /\ infl' = {} /\ got' = {}
       [] e.ev = "req" ->
            LET r == [o |-> e.o, a |-> e.a] IN
            /\ Report(e, If(r \notin need, "IMPL_request_is_an_outstanding_subrequest")
                         \cup If(~par.degenerate /\ ~(e.a >= 1 /\ e.a <= par.chunk /\ e.o >= par.from + 1 /\ e.o + e.a <= par.from + par.amount + 1),
                                 "IMPL_request_inside_wanted_range_and_chunk_size"))
            /\ need' = need \ {r} /\ infl' = infl \cup {[p |-> e.peer, o |-> e.o, a |-> e.a]}
            /\ UNCHANGED <<par, got>>
       [] e.ev = "resp" ->
            LET x == [p |-> e.peer, o |-> e.o, a |-> e.a]
                r == [o |-> e.o, a |-> e.a]
                acc == e.valid /\ IsPrefixOf(e.sent, e.o, e.a)       \* what the session must accept; everything else is re-requested
            IN
            /\ infl' = infl \ {x}
            /\ IF acc
               THEN /\ got' = got \cup SetOf(e.sent)
                    /\ need' = IF Len(e.sent) < e.a THEN need \cup Prepare(e.o + Len(e.sent), e.a - Len(e.sent), e.a) ELSE need
               ELSE need' = need \cup {r} /\ UNCHANGED got
            /\ UNCHANGED par
       [] e.ev = "result" ->
            LET full == Hts(par.from + 1, par.amount)
                hs == e.heights
            IN
            /\ Report(e,
                    If(e.panicked, "C05_no_peer_response_can_crash_the_client")
               \cup If(e.ok /\ ~(Len(hs) >= 1 /\ Len(hs) <= par.amount /\ hs = Hts(par.from + 1, Len(hs))),
                       "C05_heights_are_exactly_from_plus_1_on_without_gaps_or_duplicates_below_to")
               \cup If(e.ok /\ e.badHeader, "C05_all_returned_headers_passed_Validate_and_Verify")
               \cup If(par.degenerate /\ (e.ok \/ e.hung \/ e.panicked), "C05_degenerate_request_yields_an_error_not_a_panic_or_hang")
               \cup If(par.mode = "honest" /\ par.capable /\ ~par.degenerate /\ ~(e.ok /\ hs = full), "C18_full_range_returned_with_honest_peers")
               \cup If(e.ok /\ ~par.degenerate /\ SetOf(hs) # got /\ Len(hs) = par.amount, "IMPL_result_is_what_the_peers_delivered"))
            /\ UNCHANGED <<par, need, infl, got>>
       [] e.ev = "wire" ->
            /\ Report(e, If(~e.ok, "C18_Head_Get_GetByHeight_return_servers_data_unchanged"))
            /\ UNCHANGED <<par, need, infl, got>>
       [] OTHER -> UNCHANGED <<par, need, infl, got>>
  /\ l' = l + 1

Next == Step
Consumed == TLCGet("stats").diameter - 1 = Len(Trace)
=============================================================================
