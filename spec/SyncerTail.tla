----------------------------- MODULE SyncerTail -----------------------------
(***************************************************************************)
(* sync.Syncer tail selection (sync/syncer_tail.go: tailHeight,            *)
(* estimateTailHeight, findTailHeight, renewTail, moveTail) — C16.         *)
(* Arithmetic follows Go: integer division by zero panics, uint64          *)
(* subtraction wraps (modelled as the value WRAP), durations are integers  *)
(* (unit: one abstract tick = 1 s in the replay).                          *)
(*                                                                         *)
(* A case: parameters, the store (oldTail..storeHead, 0 = empty) with the  *)
(* header-time pattern of the chain, and the new network head.             *)
(***************************************************************************)
EXTENDS Integers, Sequences, FiniteSets, TLC, Json

CONSTANTS MaxH,       \* chain heights 1..MaxH
          Known       \* recorded defects (known_findings.json)

VARIABLES in, phase, out
vars == <<in, phase, out>>

WRAP == 1000000     \* stands for a wrapped-around uint64 (2^64 - k)

\* header times: pattern -> time of height h (ticks); spacing patterns relative to blockTime are chosen in Inputs
TimeOf(p, h) ==
  CASE p = "regular1" -> h               \* one tick per block
    [] p = "regular2" -> 2 * h           \* two ticks per block
    [] p = "slow3"    -> 3 * h           \* three ticks per block
    [] p = "halted"   -> IF h <= 3 THEN h ELSE h + 40       \* long gap after height 3
    [] p = "burst"    -> IF h <= 4 THEN 3 * h ELSE 12 + (h - 4)   \* slow, then one tick per block
    [] OTHER          -> h
Patterns == {"regular1", "regular2", "slow3", "halted", "burst"}

Inputs ==
  {[bt |-> bt, w |-> w, tp |-> tp, sfh |-> sfh, pat |-> p, tail |-> t, shead |-> sh, nhead |-> nh] :
      bt \in -1..3, w \in {0, 2, 5, 9, 12}, tp \in {3, 12}, sfh \in {0, 2, 6}, p \in Patterns,
      t \in {0, 1, 3}, sh \in {0, 4, 7}, nh \in {3, 4, 5, 6, 8, MaxH}}
Valid(i) ==
  /\ (i.tail = 0 <=> i.shead = 0)                   \* empty store or tail..shead
  /\ (i.tail # 0 => i.tail <= i.shead /\ i.nhead > i.shead)         \* running node: the new head is adjacent or far ahead (node was offline)
  /\ (i.w # 0 \/ i.sfh # 0)                           \* Parameters.Validate: one of them must be set
  /\ i.nhead <= MaxH

Res(kind, tail) == [kind |-> kind, tail |-> tail]     \* kind: "ok" | "panic" | "wrap" | "error"

\* estimateTailHeight
Estimate(i) ==
  IF i.bt <= 0 THEN Res("ok", 1)                     \* no (or a negative) block time: keep everything from genesis
  ELSE LET n == i.tp \div i.bt IN
       IF n >= i.nhead THEN Res("ok", 1) ELSE Res("ok", i.nhead - n)

\* the refinement loop of findTailHeight: move up while the header is older than the expected tail time
\* (the loop only looks at headers the store has: below the local head)
\* (i.sth = the store's Height() when the tail is computed: the local head, or the adjacent new head if the flush
\* goroutine has already taken it in — both happen, see Export)
RECURSIVE Refine(_, _, _)
Refine(i, new, expected) ==
  IF new > i.tail /\ new < i.sth /\ expected > TimeOf(i.pat, new) THEN Refine(i, new + 1, expected) ELSE new

\* findTailHeight
Find(i) ==
  LET expected == TimeOf(i.pat, i.nhead) - i.w
      diff == expected - TimeOf(i.pat, i.tail)
  IN
  IF diff <= 0 THEN Res("ok", i.tail)
  ELSE IF i.bt <= 0 THEN Res("ok", i.tail)           \* no (or a negative) block time: the tail stays
  ELSE IF diff >= i.w
       THEN LET n == i.w \div i.bt IN
            IF n >= i.nhead THEN Res("ok", i.tail)      \* estimate would fall below genesis: nothing to prune
            ELSE Res("ok", Refine(i, i.nhead - n, expected))
       ELSE LET est == i.tail + diff \div i.bt IN
            IF est > i.nhead THEN Res("ok", i.tail)        \* slower blocks than blockTime: the estimate overshoots the chain
            ELSE Res("ok", Refine(i, est, expected))

\* tailHeight + renewTail + moveTail: the final outcome
PredictedAt(i) ==
  LET th == IF i.sfh > 0 THEN Res("ok", i.sfh)
            ELSE IF i.tail = 0 THEN Estimate(i)
            ELSE Find(i)
  IN
  IF th.kind # "ok" THEN th
  ELSE IF th.tail = 0 THEN Res("error", 0)                                        \* height 0 cannot be fetched
  ELSE IF th.tail > i.nhead THEN Res("error", i.tail)                              \* nobody has that header yet
  ELSE IF i.tail # 0 /\ th.tail > i.shead + 1 /\ th.tail > i.tail THEN Res("error", i.tail)   \* DeleteRange beyond the local head+1
  ELSE Res("ok", th.tail)

Predicted(i0) ==
  LET i == [bt |-> i0.bt, w |-> i0.w, tp |-> i0.tp, sfh |-> i0.sfh, pat |-> i0.pat, tail |-> i0.tail, shead |-> i0.shead,
            nhead |-> i0.nhead, sth |-> i0.shead] IN PredictedAt(i)
\* the same with the adjacent new head already counted in Height()
PredictedAlt(i0) ==
  LET i == [bt |-> i0.bt, w |-> i0.w, tp |-> i0.tp, sfh |-> i0.sfh, pat |-> i0.pat, tail |-> i0.tail, shead |-> i0.shead,
            nhead |-> i0.nhead, sth |-> IF i0.nhead = i0.shead + 1 THEN i0.nhead ELSE i0.shead] IN PredictedAt(i)

\* property layer
Spaced(i) == i.bt > 0 /\ \A h \in 1..(i.nhead - 1) : TimeOf(i.pat, h + 1) - TimeOf(i.pat, h) <= i.bt
StartExists(i) == i.sfh = 0 \/ i.sfh <= i.nhead
Allowed(i, r) ==
  /\ r.kind \notin {"panic", "wrap"}
  /\ (StartExists(i) => r.kind = "ok")
  /\ (r.kind = "ok" => r.tail >= 1 /\ r.tail <= i.nhead)
  /\ (r.kind = "ok" /\ i.tail # 0 /\ i.sfh = 0 /\ Spaced(i) =>
        \A h \in i.tail..i.shead : TimeOf(i.pat, h) > TimeOf(i.pat, i.nhead) - i.w => h >= r.tail)

Init == in \in {i \in Inputs : Valid(i)} /\ phase = "in" /\ out = Res("", 0)
Next == phase = "in" /\ phase' = "out" /\ out' = Predicted(in) /\ UNCHANGED in
\* the two recorded findings of C16, as classes of rows
Faster(i) == i.bt > 0 /\ \E h \in 1..(i.nhead - 1) : TimeOf(i.pat, h + 1) - TimeOf(i.pat, h) < i.bt
KFOverprune(i, r) == "KF-C16-overprune" \in Known /\ r.kind = "ok" /\ Faster(i)
KFTailAboveHead(i, r) == "KF-C16-tail-above-head" \in Known /\ r.kind = "error" /\ i.tail # 0 /\ i.nhead > i.shead + 1
AllowedOrKnown(i, r) == Allowed(i, r) \/ KFOverprune(i, r) \/ KFTailAboveHead(i, r)
PredictedAllowed == phase = "out" => AllowedOrKnown(in, out) /\ AllowedOrKnown(in, PredictedAlt(in))
Export == phase = "out" => PrintT(ToJson([k |-> "C16", in |-> in, predicted |-> out, alt |-> PredictedAlt(in), allowed |-> Allowed(in, out),
                                          kf |-> (KFOverprune(in, out) \/ KFTailAboveHead(in, out)),
                                          spaced |-> Spaced(in), times |-> [h \in 1..MaxH |-> TimeOf(in.pat, h)]]))
=============================================================================
