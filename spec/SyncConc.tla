------------------------------ MODULE SyncConc ------------------------------
(***************************************************************************)
(* The Syncer's shared state at yield-point granularity (sync/syncer.go,   *)
(* syncer_head.go, sync_store.go, ranges.go):                              *)
(*                                                                         *)
(*   wrap  — syncStore.head, the head pointer every Syncer routine reads   *)
(*           (advanced by compare-and-swap inside syncStore.Append);       *)
(*   pend  — the heights cached in Syncer.pending (its ranges are the      *)
(*           maximal runs of this set);                                    *)
(*   trig  — the token in triggerSync.                                     *)
(*                                                                         *)
(* Three kinds of routine touch it concurrently:                           *)
(*   G  a gossip delivery: incomingNetworkHead under incomingMu:           *)
(*      verify against localHead(), then setLocalHead;                     *)
(*   H  a Head() caller (single flight): networkHead reads localHead(),    *)
(*      asks the trusted peers when it is not recent, and calls            *)
(*      setLocalHead for a higher answer WITHOUT incomingMu; afterwards    *)
(*      it takes incomingMu (incomingNetworkHead of the same header:       *)
(*      known) and returns localHead();                                    *)
(*   L  the sync loop: sync -> doSync -> processHeaders/requestHeaders.    *)
(*                                                                         *)
(* setLocalHead(h) is four steps, separated by the verif yield points      *)
(* setLocalHead.enter, syncStore.Append.afterHeadLoad and                  *)
(* setLocalHead.beforePendingAdd:                                          *)
(*   Enter -> Cas (the CAS loop of syncStore.Append: adjacent above the    *)
(*   head moves it, at or below is known, anything else is ignored) ->     *)
(*   Check (store head >= h: done) -> PAdd (pending.Add(h), wantSync).     *)
(*                                                                         *)
(* Headers are canonical (verification outcomes are the subject of         *)
(* Bifurcation.tla and Verify.tla); what is decided here is what the       *)
(* interleavings do to the subjective head:                                *)
(*   C19  heights returned by Head() never decrease        (HeadMonotone)  *)
(*   C03  the subjective head a candidate is verified against is never     *)
(*        below what is stored                    (SubjectiveCoversStore)  *)
(*   C07  no sync attempt fails without a getter failure   (NoSpuriousErr) *)
(*        and the newest learned head is reached           (Synced)        *)
(***************************************************************************)
EXTENDS Naturals, FiniteSets, Sequences, TLC

CONSTANTS N,        \* heights 1..N; the store starts with header 1
          MaxG,     \* gossip deliveries
          MaxH,     \* Head() calls
          MaxReq,   \* headers per range answer (partial answers: 1..MaxReq)
          ReadOrder, \* "pend_store": localHead() reads the pending cache first and the store head second (the code);
                    \*  "store_pend": the other way round (refuted: a caller between its two reads while the sync loop
                    \*  moves the pending head into the store returns the old store head)
          Fix       \* "max": localHead() is the higher of the pending head and the store head (the code since the
                    \*        repair of finding D26); "none": the pending head whenever the cache is not empty (the
                    \*        code before); "recheck": as "none", but setLocalHead re-reads the store head right
                    \*        before pending.Add (a candidate repair that TLC refutes: check-then-act)

VARIABLES wrap, pend, trig, g, hc, l, ng, nh, lastRet, retBad, syncErr, learned
vars == <<wrap, pend, trig, g, hc, l, ng, nh, lastRet, retBad, syncErr, learned>>

Max(S) == CHOOSE x \in S : \A y \in S : y <= x
Min(S) == CHOOSE x \in S : \A y \in S : x <= y
LocalHead == IF Fix = "max" THEN (IF pend # {} /\ Max(pend) > wrap THEN Max(pend) ELSE wrap)
             ELSE IF pend # {} THEN Max(pend) ELSE wrap
\* ranges.Add: ignored when not above the highest cached header
Add(p, h) == IF p # {} /\ Max(p) >= h THEN p ELSE p \cup {h}
\* the first range: the maximal run starting at the lowest cached height
FirstRun(p) == LET m == Min(p) IN {x \in p : \A y \in m..x : y \in p}

Idle == [pc |-> "idle", h |-> 0, r |-> 0]
LIdle == [pc |-> "idle", from |-> 0, to |-> 0, hs |-> {}, gapTo |-> 0]

Init == /\ wrap = 1 /\ pend = {} /\ trig = FALSE
        /\ g = Idle /\ hc = Idle /\ l = LIdle
        /\ ng = 0 /\ nh = 0 /\ lastRet = 1 /\ retBad = FALSE /\ syncErr = FALSE /\ learned = 1

(* ---- setLocalHead, for a routine record p (g or hc) ---- *)
SlhEnter(p) == p.pc = "enter" /\ [p EXCEPT !.pc = "cas"]
CasTo(hs) ==  \* syncStore.Append's loop as one linearised step; hs a contiguous run
  LET above == {x \in hs : x > wrap} IN
  IF above = {} THEN wrap ELSE IF Min(above) = wrap + 1 THEN Max(above) ELSE wrap
CasErr(hs) == LET above == {x \in hs : x > wrap} IN above # {} /\ Min(above) # wrap + 1

(* ---- G: gossip delivery under incomingMu ---- *)
MutexFree == g.pc = "idle" /\ hc.pc # "locked"  \* (the final localHead() of Head() runs after the mutex is released: "read2" does not hold it)
GStart == /\ ng < MaxG /\ MutexFree
          /\ \E h \in 2..N :
               /\ ng' = ng + 1
               /\ IF h <= LocalHead
                    THEN g' = Idle /\ UNCHANGED learned       \* known: refused
                    ELSE g' = [pc |-> "enter", h |-> h, r |-> 0] /\ learned' = IF h > learned THEN h ELSE learned
          /\ UNCHANGED <<wrap, pend, trig, hc, l, nh, lastRet, retBad, syncErr>>
GEnter == /\ g.pc = "enter" /\ g' = [g EXCEPT !.pc = "cas"]
          /\ UNCHANGED <<wrap, pend, trig, hc, l, ng, nh, lastRet, retBad, syncErr, learned>>
GCas == /\ g.pc = "cas" /\ wrap' = CasTo({g.h}) /\ g' = [g EXCEPT !.pc = "check"]
        /\ UNCHANGED <<pend, trig, hc, l, ng, nh, lastRet, retBad, syncErr, learned>>
GCheck == /\ g.pc = "check"
          /\ g' = IF wrap >= g.h THEN Idle ELSE [g EXCEPT !.pc = "padd"]
          /\ UNCHANGED <<wrap, pend, trig, hc, l, ng, nh, lastRet, retBad, syncErr, learned>>
PAddTo(h) == IF Fix = "recheck" /\ wrap >= h THEN pend ELSE Add(pend, h)
GPAdd == /\ g.pc = "padd" /\ pend' = PAddTo(g.h) /\ trig' = TRUE /\ g' = Idle
         /\ UNCHANGED <<wrap, hc, l, ng, nh, lastRet, retBad, syncErr, learned>>

(* ---- H: Head() caller ---- *)
Ret(v) == /\ lastRet' = v /\ retBad' = (retBad \/ v < lastRet)
HStart == /\ nh < MaxH /\ hc.pc = "idle" /\ nh' = nh + 1
          /\ \/ \* the subjective head is recent: returned as it is
                /\ Ret(LocalHead) /\ hc' = Idle /\ UNCHANGED learned
             \/ \* not recent: the trusted peers answer with some height
                \E a \in 1..N :
                  IF a <= LocalHead THEN Ret(LocalHead) /\ hc' = Idle /\ UNCHANGED learned
                  ELSE /\ hc' = [pc |-> "enter", h |-> a, r |-> 0] /\ learned' = IF a > learned THEN a ELSE learned
                       /\ UNCHANGED <<lastRet, retBad>>
          /\ UNCHANGED <<wrap, pend, trig, g, l, ng, syncErr>>
HEnter == /\ hc.pc = "enter" /\ hc' = [hc EXCEPT !.pc = "cas"]
          /\ UNCHANGED <<wrap, pend, trig, g, l, ng, nh, lastRet, retBad, syncErr, learned>>
HCas == /\ hc.pc = "cas" /\ wrap' = CasTo({hc.h}) /\ hc' = [hc EXCEPT !.pc = "check"]
        /\ UNCHANGED <<pend, trig, g, l, ng, nh, lastRet, retBad, syncErr, learned>>
HCheck == /\ hc.pc = "check"
          /\ hc' = [hc EXCEPT !.pc = IF wrap >= hc.h THEN "lock" ELSE "padd"]
          /\ UNCHANGED <<wrap, pend, trig, g, l, ng, nh, lastRet, retBad, syncErr, learned>>
HPAdd == /\ hc.pc = "padd" /\ pend' = PAddTo(hc.h) /\ trig' = TRUE /\ hc' = [hc EXCEPT !.pc = "lock"]
         /\ UNCHANGED <<wrap, g, l, ng, nh, lastRet, retBad, syncErr, learned>>
\* Head(): incomingNetworkHead(netHead) under the mutex (the header is known by now), then localHead()
HLock == /\ hc.pc = "lock" /\ g.pc = "idle" /\ hc' = [hc EXCEPT !.pc = "locked"]
         /\ UNCHANGED <<wrap, pend, trig, g, l, ng, nh, lastRet, retBad, syncErr, learned>>
\* the final localHead() of Head(): two reads with a yield point (localHead.betweenReads) in between
PendHead == IF pend = {} THEN 0 ELSE Max(pend)
HRead1 == /\ hc.pc = "locked"
          /\ hc' = [hc EXCEPT !.pc = "read2", !.r = IF ReadOrder = "pend_store" THEN PendHead ELSE wrap]
          /\ UNCHANGED <<wrap, pend, trig, g, l, ng, nh, lastRet, retBad, syncErr, learned>>
HRet == /\ hc.pc = "read2"
        /\ LET v == IF ReadOrder = "pend_store"
                      THEN (IF Fix = "max" THEN (IF hc.r # 0 /\ hc.r > wrap THEN hc.r ELSE wrap)
                            ELSE (IF hc.r # 0 THEN hc.r ELSE wrap))
                      ELSE (IF PendHead # 0 /\ PendHead > hc.r THEN PendHead ELSE hc.r)
           IN Ret(v)
        /\ hc' = Idle
        /\ UNCHANGED <<wrap, pend, trig, g, l, ng, nh, syncErr, learned>>

(* ---- L: the sync loop ---- *)
LTrig == /\ l.pc = "idle" /\ trig /\ trig' = FALSE
         /\ l' = IF wrap >= LocalHead THEN LIdle        \* "sync attempt to an already synced header"
                 ELSE [LIdle EXCEPT !.pc = "loop", !.from = wrap, !.to = LocalHead]
         /\ UNCHANGED <<wrap, pend, g, hc, ng, nh, lastRet, retBad, syncErr, learned>>
\* processHeaders: top of the loop
LLoop == /\ l.pc = "loop"
         /\ LET hs == IF pend = {} THEN {} ELSE {x \in FirstRun(pend) : x <= l.to} IN
            l' = IF hs = {} THEN [l EXCEPT !.pc = "final", !.gapTo = l.to, !.hs = {}]
                 ELSE IF l.from + 1 # Min(hs) THEN [l EXCEPT !.pc = "gap", !.hs = hs, !.gapTo = Min(hs) - 1]
                 ELSE [l EXCEPT !.pc = "apply", !.hs = hs]
         /\ UNCHANGED <<wrap, pend, trig, g, hc, ng, nh, lastRet, retBad, syncErr, learned>>
\* requestHeaders(from, gapTo): one getter call + syncStore.Append of its (possibly partial) answer
LFetch(pcNow, pcDone) ==
  /\ l.pc = pcNow
  /\ IF l.from >= l.gapTo
       THEN l' = [l EXCEPT !.pc = pcDone] /\ UNCHANGED <<wrap, syncErr>>
       ELSE \E k \in 1..MaxReq :
              LET hi == IF l.from + k < l.gapTo THEN l.from + k ELSE l.gapTo
                  chunk == (l.from + 1)..hi IN
              IF CasErr(chunk)
                THEN syncErr' = TRUE /\ l' = LIdle /\ UNCHANGED wrap
                ELSE wrap' = CasTo(chunk) /\ l' = [l EXCEPT !.from = hi] /\ UNCHANGED syncErr
  /\ UNCHANGED <<pend, trig, g, hc, ng, nh, lastRet, retBad, learned>>
LGap == LFetch("gap", "apply")
LApply == /\ l.pc = "apply"
          /\ IF CasErr(l.hs) THEN syncErr' = TRUE /\ l' = LIdle /\ UNCHANGED wrap
             ELSE wrap' = CasTo(l.hs) /\ l' = [l EXCEPT !.pc = "remove"] /\ UNCHANGED syncErr
          /\ UNCHANGED <<pend, trig, g, hc, ng, nh, lastRet, retBad, learned>>
LRemove == /\ l.pc = "remove" /\ pend' = pend \ l.hs
           /\ l' = [l EXCEPT !.pc = "loop", !.from = Max(l.hs), !.hs = {}]
           /\ UNCHANGED <<wrap, trig, g, hc, ng, nh, lastRet, retBad, syncErr, learned>>
LFinal == LFetch("final", "end")
LEnd == /\ l.pc = "end" /\ l' = LIdle
        /\ UNCHANGED <<wrap, pend, trig, g, hc, ng, nh, lastRet, retBad, syncErr, learned>>

Next == \/ GStart \/ GEnter \/ GCas \/ GCheck \/ GPAdd
        \/ HStart \/ HEnter \/ HCas \/ HCheck \/ HPAdd \/ HLock \/ HRead1 \/ HRet
        \/ LTrig \/ LLoop \/ LGap \/ LApply \/ LRemove \/ LFinal \/ LEnd
Fair == /\ WF_vars(GEnter \/ GCas \/ GCheck \/ GPAdd)
        /\ WF_vars(HEnter \/ HCas \/ HCheck \/ HPAdd \/ HLock \/ HRead1 \/ HRet)
        /\ WF_vars(LTrig \/ LLoop \/ LGap \/ LApply \/ LRemove \/ LFinal \/ LEnd)
Spec == Init /\ [][Next]_vars /\ Fair

TypeOK == /\ wrap \in 1..N /\ pend \subseteq 2..N /\ trig \in BOOLEAN
          /\ g.pc \in {"idle", "enter", "cas", "check", "padd"}
          /\ hc.pc \in {"idle", "enter", "cas", "check", "padd", "lock", "locked", "read2"}
          /\ l.pc \in {"idle", "loop", "gap", "apply", "remove", "final", "end"}
\* C19
HeadMonotone == ~retBad
\* C03 (root of it): what a candidate is verified against (localHead() at the moment a delivery takes the mutex) is
\* never below what is stored — otherwise a sibling of a stored header verifies as "adjacent to the subjective head",
\* is accepted, and syncStore.Append passes it through to the Store where it replaces the stored header of that height
SubjectiveCoversStore == MutexFree => LocalHead >= wrap
\* the same at rest only (no sync attempt under way): a stale pending entry that nothing cleans up
SubjectiveCoversStoreAtRest == (MutexFree /\ l.pc = "idle" /\ ~trig) => LocalHead >= wrap
WrapMonotone == [][wrap' >= wrap]_vars
LocalHeadMonotone == [][LocalHead' >= LocalHead]_vars
\* C07
NoSpuriousErr == ~syncErr
Synced == <>[](wrap = learned /\ pend = {})
Reached == <>[](wrap = learned)
=============================================================================
