CONSTANT Variant = "code"
INIT Init
NEXT Next
INVARIANTS PredictedAllowed Export
CHECK_DEADLOCK FALSE
