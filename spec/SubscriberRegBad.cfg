SPECIFICATION Spec
CONSTANTS
  Waiters = {w1, w2}
  Order = "close_write"
INVARIANTS TypeOK ConsultsRegistered
CHECK_DEADLOCK FALSE
