CONSTANTS Setters = {"S1", "S2", "S3"}
 Waiters = {"W1", "W2", "W3", "W4"}
 MaxH = 6
 MaxG = 12
 UseCAS = TRUE
 WithInit = FALSE
SPECIFICATION TSpec
POSTCONDITION Consumed
CHECK_DEADLOCK FALSE
