------------------------------ MODULE HeightSub ------------------------------
(***************************************************************************)
(* store/heightsub.go as a unit: the published height (an atomic), the     *)
(* per-height waiter records under heightSubsLk, and the calls SetHeight   *)
(* (load / compare-and-swap loop / notification of the covered heights),   *)
(* Notify, WaitUnless (first check, re-check and subscription under the    *)
(* lock, the caller's lookup once the subscription is in place, the        *)
(* select on the record's signal and the caller's context).                *)
(*                                                                         *)
(* Grain: one step = the code segment between two verif yield points       *)
(* (setHeight.afterLoad, setHeight.afterCAS, wait.afterCheck,              *)
(* wait.subscribed); a goroutine blocked in the final select has no yield  *)
(* point: it finishes inside the step that closes its signal or cancels    *)
(* its context.                                                            *)
(*                                                                         *)
(* The transition relation is ONE function Do(st, p, a, x) from a state    *)
(* record and an event to the SET of successor states (a set because of    *)
(* the one place where Go chooses: a select with both cases ready).  The   *)
(* design model (Next) and the trace validation (HeightSubTrace.tla) use   *)
(* the same Do, so what TLC proves and what the recorded executions are    *)
(* matched against cannot drift apart.                                     *)
(*                                                                         *)
(* UseCAS = FALSE is the variant "load, compare, store" (no CAS loop):     *)
(* HeightMonotone must be refuted for it (self-test).                      *)
(***************************************************************************)
EXTENDS Naturals, FiniteSets, Sequences, TLC

CONSTANTS Setters, Waiters, MaxH, MaxG, UseCAS,
          WithInit     \* design model only: Init(h) calls (heads moved down by deletions) are part of the environment

Hs == 1..MaxH
Gs == 1..MaxG

Init0 == [height |-> 0, stored |-> {},
          spc  |-> [s \in Setters |-> "idle"], scur |-> [s \in Setters |-> 0], stgt |-> [s \in Setters |-> 0],
          wpc  |-> [w \in Waiters |-> "idle"], wres |-> [w \in Waiters |-> ""], want |-> [w \in Waiters |-> 0],
          sac  |-> [w \in Waiters |-> 0], wcan |-> [w \in Waiters |-> FALSE],
          av   |-> [w \in Waiters |-> FALSE],   \* history: the waiter's height has been available at some moment since its call
          gen  |-> [h \in Hs |-> 0], cnt |-> [g \in Gs |-> 0], open |-> [g \in Gs |-> FALSE], ng |-> 0]

\* notify(h, all): under the lock.  Waiters blocked in the select on a signal that is closed return nil within this step.
NotifyOne(st, h, all) ==
  LET g == st.gen[h] IN
  IF g = 0 THEN st
  ELSE LET c == st.cnt[g] - 1 IN
       IF all \/ c = 0
       THEN LET woken == {w \in Waiters : st.wpc[w] = "waiting" /\ st.sac[w] = g} IN
            [st EXCEPT !.cnt[g] = c, !.open[g] = FALSE, !.gen[h] = 0,
                       !.wpc = [w \in Waiters |-> IF w \in woken THEN "done" ELSE st.wpc[w]],
                       !.wres = [w \in Waiters |-> IF w \in woken THEN "ok" ELSE st.wres[w]]]
       ELSE [st EXCEPT !.cnt[g] = c]

RECURSIVE NotifyRange(_, _, _)
NotifyRange(st, a, b) == IF a > b THEN st ELSE NotifyRange(NotifyOne(st, a, TRUE), a + 1, b)

\* ---- SetHeight(t) by setter s ----
\* call: the caller has made 1..t available (in the Store: the headers are in the pending batch), then the first load
SCall(st, s, t) ==
  IF st.spc[s] \notin {"idle", "done"} \/ t \notin Hs THEN {}
  ELSE {[st EXCEPT !.stored = @ \cup 1..t, !.spc[s] = "loaded", !.scur[s] = st.height, !.stgt[s] = t]}

\* released from setHeight.afterLoad: compare, CAS; on a failed CAS the loop loads again and parks at the same point
SStepLoaded(st, s) ==
  LET t == st.stgt[s] c == st.scur[s] IN
  IF c >= t THEN {[st EXCEPT !.spc[s] = "done"]}
  ELSE IF ~UseCAS THEN {[st EXCEPT !.height = t, !.spc[s] = "swapped"]}
  ELSE IF st.height = c THEN {[st EXCEPT !.height = t, !.spc[s] = "swapped"]}
  ELSE {[st EXCEPT !.scur[s] = st.height]}

\* released from setHeight.afterCAS: every height from the old to the new one is notified under the lock
SStepSwapped(st, s) ==
  LET lo == IF st.scur[s] = 0 THEN 1 ELSE st.scur[s] IN
  {[NotifyRange(st, lo, st.stgt[s]) EXCEPT !.spc[s] = "done"]}

\* ---- Notify(h): a header stored out of order (pending.Append, then Notify) ----
NCall(st, h) == IF h \notin Hs THEN {} ELSE {NotifyOne([st EXCEPT !.stored = @ \cup {h}], h, TRUE)}

\* ---- WaitUnless(ctx, h, present) by waiter w ----
WCall(st, w, h) ==
  IF st.wpc[w] # "idle" \/ h \notin Hs THEN {}
  ELSE IF st.height >= h THEN {[st EXCEPT !.wpc[w] = "done", !.wres[w] = "elapsed", !.want[w] = h]}
  ELSE {[st EXCEPT !.wpc[w] = "checked", !.want[w] = h]}

\* released from wait.afterCheck: lock, re-check, subscribe (a new record if the height has none)
WStepChecked(st, w) ==
  LET h == st.want[w] IN
  IF st.height >= h THEN {[st EXCEPT !.wpc[w] = "done", !.wres[w] = "elapsed"]}
  ELSE IF st.gen[h] # 0
       THEN {[st EXCEPT !.cnt[st.gen[h]] = @ + 1, !.sac[w] = st.gen[h], !.wpc[w] = "subscribed"]}
       ELSE IF st.ng >= MaxG THEN {}     \* (bound of the model)
       ELSE LET g == st.ng + 1 IN
            {[st EXCEPT !.ng = g, !.gen[h] = g, !.cnt[g] = 1, !.open[g] = TRUE, !.sac[w] = g, !.wpc[w] = "subscribed"]}

\* released from wait.subscribed: the caller's lookup, then the select
WStepSubscribed(st, w) ==
  LET h == st.want[w] g == st.sac[w] IN
  IF h \in st.stored
  THEN \* present(): if the record was signalled meanwhile the subscription is gone already, otherwise it is taken back
       IF ~st.open[g] THEN {[st EXCEPT !.wpc[w] = "done", !.wres[w] = "ok"]}
       ELSE {[NotifyOne(st, h, FALSE) EXCEPT !.wpc[w] = "done", !.wres[w] = "ok"]}
  ELSE   (IF ~st.open[g] THEN {[st EXCEPT !.wpc[w] = "done", !.wres[w] = "ok"]} ELSE {})
    \cup (IF st.wcan[w] THEN {[NotifyOne(st, h, FALSE) EXCEPT !.wpc[w] = "done", !.wres[w] = "ctx"]} ELSE {})
    \cup (IF st.open[g] /\ ~st.wcan[w] THEN {[st EXCEPT !.wpc[w] = "waiting"]} ELSE {})

\* the caller's context ends
WCancel(st, w) ==
  IF st.wcan[w] \/ st.wpc[w] \in {"idle", "done"} THEN {}
  ELSE IF st.wpc[w] = "waiting"
       THEN {[NotifyOne(st, st.want[w], FALSE) EXCEPT !.wpc[w] = "done", !.wres[w] = "ctx", !.wcan[w] = TRUE]}
       ELSE {[st EXCEPT !.wcan[w] = TRUE]}

\* ---- Init(h): the head was moved down (setHead after a head-side deletion, ensureInit after a wipe): the height is
\* stored without a CAS, every record below it is released; what is available now ends at h.  Init itself leaves a waiter
\* of exactly h alone; in the Store the header of that height is there already or is notified right afterwards by the flush
\* that initialised the store, so the step modelled (and driven by the harness) is Init(h) followed by Notify(h) ----
ICall(st, h) == IF h \notin Hs THEN {} ELSE {NotifyRange([st EXCEPT !.height = h, !.stored = 1..h], 1, h)}

Do0(st, p, a, x) ==
  CASE p \in Setters /\ a = "call"   -> SCall(st, p, x)
    [] p = "I"       /\ a = "call"   -> ICall(st, x)
    [] p \in Setters /\ a = "step"   -> (IF st.spc[p] = "loaded" THEN SStepLoaded(st, p)
                                         ELSE IF st.spc[p] = "swapped" THEN SStepSwapped(st, p) ELSE {})
    [] p = "N"       /\ a = "call"   -> NCall(st, x)
    [] p \in Waiters /\ a = "call"   -> WCall(st, p, x)
    [] p \in Waiters /\ a = "step"   -> (IF st.wpc[p] = "checked" THEN WStepChecked(st, p)
                                         ELSE IF st.wpc[p] = "subscribed" THEN WStepSubscribed(st, p) ELSE {})
    [] p \in Waiters /\ a = "cancel" -> WCancel(st, p)
    [] OTHER -> {}

Upd(s) == [s EXCEPT !.av = [w \in Waiters |-> s.av[w] \/ (s.wpc[w] # "idle" /\ s.want[w] \in s.stored)]]
Do(st, p, a, x) == {Upd(s) : s \in Do0(st, p, a, x)}

-----------------------------------------------------------------------------
(* design model *)
VARIABLE st
Init == st = Init0
Next == \E p \in Setters \cup Waiters \cup {"N"} \cup (IF WithInit THEN {"I"} ELSE {}), a \in {"call", "step", "cancel"}, x \in Hs :
           st' \in Do(st, p, a, x)
Spec == Init /\ [][Next]_st

\* a setter only ever raises its targets (in the Store: the head only walks up between two Init calls)
Quiet == \A s \in Setters : st.spc[s] \in {"idle", "done"}

HeightMonotone == [][st'.height >= st.height]_st
\* nil is returned only for a height that has been made available
OkIsStored == \A w \in Waiters : st.wres[w] = "ok" => st.want[w] \in st.stored
ElapsedIsRight == \A w \in Waiters : st.wres[w] = "elapsed" => st.height >= st.want[w]
\* no lost wake-up: once every SetHeight has returned, nobody is left blocked on a height that is available
NoLostWakeup == Quiet => \A w \in Waiters : st.wpc[w] = "waiting" => st.want[w] \notin st.stored /\ st.want[w] > st.height
\* nil is returned only to a waiter whose height has been available at some moment since its call.  It holds without
\* deletions (HeightSub.cfg).  With Init calls in the history (a head moved down by a deletion) it does NOT hold for the
\* code, in two ways TLC shows: (1) a SetHeight parked between its CAS and its notification notifies, after an Init, a
\* height that was deleted before the waiter even called; (2) a waiter whose record was closed while it sat between its
\* subscription and its select, and whose context is cancelled, may take the context branch (Go picks either ready case) and
\* call notify(height, false), which works on whatever record the map holds NOW — the record of a LATER waiter of the same
\* height.  Either way a waiter is released although its height was never available to it (GetByHeight then answers
\* "not found" for a height above Height()).  HeightSubInit.cfg must refute OkWasAvailable: a recorded observation, outside
\* C12's quantifier (appends, cancellations, other waiters — no deletions) and C17's (a tail-side deleter only).
OkWasAvailable == \A w \in Waiters : st.wres[w] = "ok" => st.av[w]
\* a cancelled context releases the caller (it is never left in the select)
CancelReleases == \A w \in Waiters : st.wcan[w] => st.wpc[w] # "waiting"
\* the published height is covered by what is available
HeightIsStored == st.height = 0 \/ (1..st.height) \subseteq st.stored

-----------------------------------------------------------------------------
(* liveness (checked without Init calls): under weak fairness of every goroutine's own steps — a parked goroutine is
   eventually released — a waiter whose height is available eventually returns *)
StepOf(p) == \E x \in Hs : st' \in Do(st, p, "step", x)
LiveSpec == Spec /\ \A p \in Setters \cup Waiters : WF_st(StepOf(p))
EventuallyReturns == \A w \in Waiters : (st.wpc[w] # "idle" /\ st.want[w] \in st.stored) ~> (st.wpc[w] = "done")
=============================================================================
