----------------------------- MODULE ExchangeMC -----------------------------
EXTENDS Exchange
MCPeers3 == {1, 2, 3}
MCPeers2 == {1, 2}
MCByz == {"full", "prefix", "notfound", "empty", "shifted", "dup", "forged", "garbage"}
MCBenign == {"full", "prefix", "notfound", "empty"}
MCNone == {}
MCCap1 == {1}
=============================================================================
