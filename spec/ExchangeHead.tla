---------------------------- MODULE ExchangeHead ----------------------------
(***************************************************************************)
(* p2p.Exchange.Head (p2p/exchange.go): the collection loop over the asked *)
(* peers' answers in arrival order — C09.                                  *)
(*                                                                         *)
(* An answer is "fail" (no usable header), "hang" (never arrives) or a     *)
(* header id.  Ids carry a height and, in trusted-head mode, the class of  *)
(* header.Verify(trusted, id): ok, soft or hard.                           *)
(***************************************************************************)
EXTENDS Naturals, Sequences, FiniteSets, TLC, Json

CONSTANTS MaxPeers,          \* 1..MaxPeers asked peers (plain Head())
          MaxTrustedPeers    \* 1..MaxTrustedPeers asked peers with WithTrustedHead

VARIABLES in, phase, out
vars == <<in, phase, out>>

\* header ids: height and verification class against the trusted head (only used in trusted mode)
Ids == {"A", "B", "S", "H"}
HeightOf(id) == CASE id = "A" -> 5 [] id = "B" -> 7 [] id = "S" -> 8 [] id = "H" -> 3
ClassOf(id)  == CASE id = "A" -> "ok" [] id = "B" -> "ok" [] id = "S" -> "soft" [] id = "H" -> "hard"
Answers == Ids \cup {"fail", "hang"}

MinHead(n) == IF n <= 2 THEN n ELSE (2 * n + 2) \div 3          \* minHeadResponses

Perms(n) == {p \in [1..n -> 1..n] : \A i, j \in 1..n : i # j => p[i] # p[j]}

\* a case: mode, the answer of each peer, and the order in which the non-hanging answers arrive.
\* Without a trusted head there are no verification classes: S and H would be plain headers, A and B suffice.
AnswersOf(t) == IF t THEN Answers ELSE {"A", "B", "fail", "hang"}
InputsN(n, t) == {[trusted |-> t, ans |-> a, order |-> o] : a \in [1..n -> AnswersOf(t)], o \in Perms(n)}
Inputs == UNION {InputsN(n, TRUE) : n \in 1..MaxTrustedPeers} \cup UNION {InputsN(n, FALSE) : n \in 1..MaxPeers}
\* canonical arrival order: hanging peers are listed last (they never arrive)
Wellformed(i) ==
  \A k, m \in DOMAIN i.order : (k < m /\ i.ans[i.order[k]] = "hang") => i.ans[i.order[m]] = "hang"

Res(id, err) == [id |-> id, err |-> err]       \* id "zero" = zero header; err: "nil" | "soft" | "notfound" | "ctx"

\* what one arriving answer contributes: header id (or none) and whether it carries a soft error
Usable(i, a) == a \in Ids /\ (~i.trusted \/ ClassOf(a) # "hard")
IsSoft(i, a) == i.trusted /\ a \in Ids /\ ClassOf(a) = "soft"

Count(i, upto, id) == Cardinality({k \in 1..upto : i.ans[i.order[k]] = id})

\* implementation layer: the loop of Head()
RECURSIVE Loop(_, _)
Loop(i, k) ==
  LET n == Len(i.ans) IN
  IF k > n THEN "exhausted"
  ELSE LET a == i.ans[i.order[k]] IN
       IF a = "hang" THEN "blocked"
       ELSE IF Usable(i, a) /\ Count(i, k, a) >= MinHead(n) THEN a
       ELSE Loop(i, k + 1)

Received(i) == {i.ans[k] : k \in DOMAIN i.ans} \cap {a \in Ids : Usable(i, a)}
Highest(S) == CHOOSE x \in S : \A y \in S : HeightOf(y) <= HeightOf(x)

Predicted(i) ==
  LET r == Loop(i, 1) IN
  IF r = "blocked" THEN Res("zero", "ctx")
  ELSE IF r = "exhausted"
       THEN IF Received(i) = {} THEN Res("zero", "notfound")
            ELSE Res(Highest(Received(i)), IF IsSoft(i, Highest(Received(i))) THEN "soft" ELSE "nil")
  ELSE Res(r, IF IsSoft(i, r) THEN "soft" ELSE "nil")

\* property layer
QuorumAt(i) ==      \* the first (arrival index, id) at which some id reaches the quorum of the ASKED peers, or <<0, "">>
  LET n == Len(i.ans)
      hits == {k \in 1..n : LET a == i.ans[i.order[k]] IN a # "hang" /\ Usable(i, a) /\ Count(i, k, a) >= MinHead(n)
                            /\ \A m \in 1..k : i.ans[i.order[m]] # "hang"}
  IN IF hits = {} THEN <<0, "">> ELSE LET k == CHOOSE x \in hits : \A y \in hits : x <= y IN <<k, i.ans[i.order[k]]>>

AnyHang(i) == \E k \in DOMAIN i.ans : i.ans[k] = "hang"
ArrivedUsable(i) == {a \in Received(i) : \E k \in DOMAIN i.ans : i.ans[k] = a}

Allowed(i, r) ==
  LET qa == QuorumAt(i) IN
  /\ (r.err = "nil" => r.id \in Ids /\ (i.trusted => ClassOf(r.id) = "ok"))          \* nil error: passed Verify
  /\ (r.id \in Ids /\ i.trusted => ClassOf(r.id) # "hard")                             \* never a header that hard-fails
  /\ (r.id \in Ids /\ i.trusted /\ ClassOf(r.id) = "soft" => r.err = "soft")           \* soft only together with its error
  /\ (r.err = "soft" => r.id \in Ids /\ i.trusted /\ ClassOf(r.id) = "soft")
  /\ (r.id = "zero" <=> r.err \in {"notfound", "ctx"})
  /\ IF qa[1] # 0 THEN r.id = qa[2]                                                   \* quorum: returned as soon as it exists
     ELSE IF ~AnyHang(i)
          THEN IF ArrivedUsable(i) = {} THEN r = Res("zero", "notfound")
               ELSE r.id \in ArrivedUsable(i) /\ \A y \in ArrivedUsable(i) : HeightOf(y) <= HeightOf(r.id)
          ELSE \/ r = Res("zero", "ctx")
               \/ (r.id \in ArrivedUsable(i) /\ \A y \in ArrivedUsable(i) : HeightOf(y) <= HeightOf(r.id))

Init == in \in {i \in Inputs : Wellformed(i)} /\ phase = "in" /\ out = Res("", "")
Next == phase = "in" /\ phase' = "out" /\ out' = Predicted(in) /\ UNCHANGED in

PredictedAllowed == phase = "out" => Allowed(in, out)
QuorumArithmetic == \A n \in 1..6 : MinHead(n) = (IF n <= 2 THEN n ELSE CHOOSE q \in 1..n : 3 * q >= 2 * n /\ 3 * (q - 1) < 2 * n)
Export == phase = "out" => PrintT(ToJson([k |-> "C09", in |-> in, predicted |-> out]))
=============================================================================
