------------------------------- MODULE Store -------------------------------
(***************************************************************************)
(* store.Store (store/store.go, store_delete.go, heightsub.go, batch.go)   *)
(* at the granularity of public operations issued at quiescent points,     *)
(* with the datastore writes of every operation as separate steps so that  *)
(* a crash can be placed at every write boundary.                          *)
(*                                                                         *)
(* One chain, so a header is identified with its height (1..N).            *)
(*                                                                         *)
(* Implementation layer (shaped like the code):                            *)
(*   disk   : dH (header keys), dI (height-index keys), hp/tp (pointers)   *)
(*   memory : pend (pending batch), head/tail (contiguousHead/tailHeader), *)
(*            hs (heightSub.height), up (flushLoop running)                *)
(*   wq/fin : datastore writes still to be applied by the running op and   *)
(*            the memory state installed when it returns                   *)
(* Caches (2Q header cache, index cache) are transparent.                  *)
(*                                                                         *)
(* Property layer: history variables live/deleted and the invariants at    *)
(* the bottom (C04, C06, C08, C14).                                        *)
(***************************************************************************)
EXTENDS Naturals, Sequences, FiniteSets, TLC, Json

CONSTANTS N,         \* heights 1..N
          B,         \* WriteBatchSize
          MaxOps,    \* operations per behaviour
          MaxBatch,  \* longest Append batch
          Ctx,       \* TRUE: context-aware datastore (deletes of one DeleteRange form one batch)
          Faults,    \* TRUE: DeleteRange may carry a failing OnDelete handler
          Crashes,   \* TRUE: Crash enabled at every write boundary
          Known      \* tags of recorded (unrepaired) defects, see known_findings.json

VARIABLES dH, dI, hp, tp, pend, head, tail, hs, up, wq, fin,
          live, deleted, last, nops, hist, dirty

disk == <<dH, dI, hp, tp>>
mem  == <<pend, head, tail, hs, up>>
vars == <<dH, dI, hp, tp, pend, head, tail, hs, up, wq, fin, live, deleted, last, nops, hist, dirty>>
view == <<dH, dI, hp, tp, pend, head, tail, hs, up, wq, fin, live, deleted, dirty,
          IF fin.set \/ wq # <<>> THEN last ELSE 0>>   \* the running op is part of the state, the completed one is not

viewD == <<view, nops>>    \* depth-indexed view: exploration within MaxOps does not depend on search order

Hs == 1..N
Max(a, b) == IF a >= b THEN a ELSE b
Range(s) == {s[i] : i \in DOMAIN s}

\* the state as a record, so that the code's helper functions read like the code
St == [dH |-> dH, dI |-> dI, hp |-> hp, tp |-> tp, pend |-> pend, head |-> head, tail |-> tail, hs |-> hs]

-----------------------------------------------------------------------------
(* Lookups — store.go: getByHeight, Get, nextHead, nextTail *)

ByHash(S, h) == h \in S.pend \/ h \in S.dH                     \* Get(hash): pending batch, datastore
Readable(S, h) ==                                              \* getByHeight succeeds
  /\ h \in Hs
  /\ \/ S.head = h
     \/ S.tail = h
     \/ h \in S.pend
     \/ (h \in S.dI /\ ByHash(S, h))

RECURSIVE UpFrom(_, _)
UpFrom(S, cur) == IF cur < N /\ Readable(S, cur + 1) THEN UpFrom(S, cur + 1) ELSE cur
RECURSIVE DownFrom(_, _)
DownFrom(S, cur) == IF cur > 1 /\ Readable(S, cur - 1) THEN DownFrom(S, cur - 1) ELSE cur

-----------------------------------------------------------------------------
(* Datastore writes *)

WCommit(s, h, t)  == [t |-> "commit", hs |-> s, a |-> h, b |-> t]   \* one atomic batch: headers+index of s, pointers
WDelH(h)          == [t |-> "delH", hs |-> {h}, a |-> 0, b |-> 0]
WDelI(h)          == [t |-> "delI", hs |-> {h}, a |-> 0, b |-> 0]
WDelBatch(s)      == [t |-> "delbatch", hs |-> s, a |-> 0, b |-> 0]
WPutTail(h)       == [t |-> "putTail", hs |-> {}, a |-> h, b |-> 0]
WPutHead(h)       == [t |-> "putHead", hs |-> {}, a |-> h, b |-> 0]
WDelHeadPtr       == [t |-> "delHeadPtr", hs |-> {}, a |-> 0, b |-> 0]
WDelTailPtr       == [t |-> "delTailPtr", hs |-> {}, a |-> 0, b |-> 0]

ApplyWrite(w) ==
  CASE w.t = "commit"     -> /\ dH' = dH \cup w.hs /\ dI' = dI \cup w.hs
                             /\ hp' = (IF w.a # 0 THEN w.a ELSE hp) /\ tp' = (IF w.b # 0 THEN w.b ELSE tp)
    [] w.t = "delH"       -> dH' = dH \ w.hs /\ UNCHANGED <<dI, hp, tp>>
    [] w.t = "delI"       -> dI' = dI \ w.hs /\ UNCHANGED <<dH, hp, tp>>
    [] w.t = "delbatch"   -> dH' = dH \ w.hs /\ dI' = dI \ w.hs /\ UNCHANGED <<hp, tp>>
    [] w.t = "putTail"    -> tp' = w.a /\ UNCHANGED <<dH, dI, hp>>
    [] w.t = "putHead"    -> hp' = w.a /\ UNCHANGED <<dH, dI, tp>>
    [] w.t = "delHeadPtr" -> hp' = 0 /\ UNCHANGED <<dH, dI, tp>>
    [] w.t = "delTailPtr" -> tp' = 0 /\ UNCHANGED <<dH, dI, hp>>

\* the disk after applying a whole sequence of writes (used to compute what later steps of the same op read)
RECURSIVE DiskAfter(_, _)
DiskAfter(S, ws) ==
  IF ws = <<>> THEN S
  ELSE LET w == Head(ws)
           S1 == CASE w.t = "commit"   -> [S EXCEPT !.dH = @ \cup w.hs, !.dI = @ \cup w.hs,
                                                     !.hp = IF w.a # 0 THEN w.a ELSE @, !.tp = IF w.b # 0 THEN w.b ELSE @]
                   [] w.t = "delH"     -> [S EXCEPT !.dH = @ \ w.hs]
                   [] w.t = "delI"     -> [S EXCEPT !.dI = @ \ w.hs]
                   [] w.t = "delbatch" -> [S EXCEPT !.dH = @ \ w.hs, !.dI = @ \ w.hs]
                   [] w.t = "putTail"  -> [S EXCEPT !.tp = w.a]
                   [] w.t = "putHead"  -> [S EXCEPT !.hp = w.a]
                   [] w.t = "delHeadPtr" -> [S EXCEPT !.hp = 0]
                   [] w.t = "delTailPtr" -> [S EXCEPT !.tp = 0]
       IN DiskAfter(S1, Tail(ws))

-----------------------------------------------------------------------------
(* Append + Sync : one iteration of flushLoop's flush() per Append call *)

FlushResult(S, b) ==
  LET first == b[1]
      \* ensureInit: an empty store starts at the first header of the batch; advanceHead/recedeTail then
      \* extend over whatever is contiguous with it
      S0 == [S EXCEPT !.head = IF S.head = 0 THEN first ELSE @,
                      !.hs   = IF S.head = 0 THEN first ELSE @,
                      !.tail = IF S.tail = 0 THEN first ELSE @]
      S1 == [S0 EXCEPT !.pend = @ \cup Range(b)]                 \* pending.Append (+ heightSub.Notify)
      h1 == UpFrom(S1, S1.head)                                  \* advanceHead
      S2 == [S1 EXCEPT !.head = h1, !.hs = IF h1 # S1.head THEN Max(@, h1) ELSE @]
      t1 == DownFrom(S2, S2.tail)                                \* recedeTail
      S3 == [S2 EXCEPT !.tail = t1]
  IN  IF Cardinality(S3.pend) >= B
      THEN [mem |-> [S3 EXCEPT !.pend = {}], ws |-> <<WCommit(S3.pend, S3.head, S3.tail)>>]
      ELSE [mem |-> S3, ws |-> <<>>]

-----------------------------------------------------------------------------
(* DeleteRange — store_delete.go *)

\* classification of the request exactly as the validation in DeleteRange
DelKind(S, from, to) ==
  IF S.head = 0 \/ S.tail = 0 THEN "empty"
  ELSE IF from >= to THEN "invalid"
  ELSE IF from > S.head \/ to <= S.tail THEN "outside"
  ELSE LET ut == from = S.tail
           uh == to = S.head + 1
       IN IF ut /\ uh /\ ~Readable(S, to) THEN "wipe"
          ELSE IF ut THEN (IF to > S.head + 1 THEN "beyond" ELSE "tail")
          ELSE IF uh THEN (IF from < S.tail THEN "below" ELSE "head")
          ELSE "middle"

Found(S, h) == h \in S.dI                          \* deleteSingle finds the hash through the on-disk index

\* flush(nil): what Sync (and therefore DeleteRange) and Stop do with the pending batch — advanceHead, recedeTail,
\* forced commit of everything pending
FlushNil(S) ==
  LET h1 == IF S.head = 0 THEN 0 ELSE UpFrom(S, S.head)
      S2 == [S EXCEPT !.head = h1, !.hs = IF h1 # S.head THEN Max(@, h1) ELSE @]
      t1 == IF S2.tail = 0 THEN 0 ELSE DownFrom(S2, S2.tail)
      S3 == [S2 EXCEPT !.tail = t1]
      ws == IF S3.pend = {} THEN <<>> ELSE <<WCommit(S3.pend, S3.head, S3.tail)>>
  IN [mem |-> [DiskAfter(S3, ws) EXCEPT !.pend = {}], ws |-> ws]

RECURSIVE SeqOfSet(_)
SeqOfSet(s) == IF s = {} THEN <<>>
               ELSE LET m == CHOOSE x \in s : \A y \in s : x <= y IN <<m>> \o SeqOfSet(s \ {m})

\* failAt = 0: no failure; otherwise, fk = "handler": the OnDelete handler fails (error or panic) when called for failAt;
\* fk = "timeout": the caller's deadline (95% of it, errDeleteTimeout) has passed when deleteSingle reaches failAt
DelResult(S0, from, to, failAt, fk) ==
  LET sy      == FlushNil(S0)                                       \* DeleteRange starts with Sync
      S       == sy.mem
      kind    == DelKind(S, from, to)
      fails   == failAt \in from..(to - 1) /\
                 IF fk = "timeout" THEN \E h \in from..(failAt - 1) : Found(S, h)     \* time passes only while headers are deleted
                 ELSE Found(S, failAt)
      actual  == IF fails THEN failAt ELSE to                       \* first unprocessed height
      gone    == {h \in from..(actual - 1) : Found(S, h)}           \* headers actually removed
      calls   == SeqOfSet(gone \cup (IF fails /\ fk = "handler" THEN {failAt} ELSE {}))   \* handler invocations, ascending
      delws   == IF gone = {} THEN <<>>
                 ELSE IF Ctx THEN <<WDelBatch(gone)>>
                 ELSE LET s == SeqOfSet(gone)
                      IN [i \in 1..(2 * Len(s)) |-> IF i % 2 = 1 THEN WDelH(s[(i + 1) \div 2]) ELSE WDelI(s[i \div 2])]
      S1      == DiskAfter(S, delws)
      R(m, w, res) == [mem |-> m, ws |-> sy.ws \o w, res |-> res, calls |-> calls, gone |-> gone, kind |-> kind]
  IN
  IF kind \notin {"wipe", "tail", "head"}
  THEN [mem |-> S, ws |-> sy.ws, res |-> "err", calls |-> <<>>, gone |-> {}, kind |-> kind]
  ELSE IF kind = "head" THEN
         \* the on-disk head pointer moves below the range first, then the headers go, then memory follows
         \* (setHead) — or the pointer is put back when nothing was deleted
         IF Readable(S, from - 1)
         THEN IF actual > from
              THEN R([S1 EXCEPT !.head = from - 1, !.hs = from - 1],
                     <<WPutHead(from - 1)>> \o delws \o <<WPutHead(from - 1)>>, IF fails THEN "err" ELSE "ok")
              ELSE R(S1, <<WPutHead(from - 1)>> \o delws \o <<WPutHead(S.head)>>, "err")
         ELSE [mem |-> S, ws |-> sy.ws, res |-> "err", calls |-> <<>>, gone |-> {}, kind |-> kind]
  ELSE IF kind = "wipe" /\ ~fails THEN
         R([S1 EXCEPT !.head = 0, !.tail = 0],                                        \* deinit (Height keeps its value)
           delws \o <<WDelHeadPtr, WDelTailPtr>>, "ok")
  ELSE \* tail side (or a wipe that failed part-way): setTail(actual)
       IF Readable(S1, actual)
       THEN LET S2 == [S1 EXCEPT !.tail = actual]
                over == actual > S.head
                S3 == IF over THEN [S2 EXCEPT !.head = actual] ELSE S2
                h1 == IF over THEN UpFrom(S3, actual) ELSE S3.head
                S4 == [S3 EXCEPT !.head = h1, !.hs = IF over /\ h1 # actual THEN Max(@, h1) ELSE @]
            IN R(S4, delws \o <<WPutTail(actual)>> \o (IF over THEN <<WPutHead(actual)>> ELSE <<>>),
                 IF fails THEN "err" ELSE "ok")
       ELSE R(S1, delws, "err")

-----------------------------------------------------------------------------
(* Projection shared with the harness: what the public API and the raw datastore show *)

Proj(S) == [head |-> S.head, tail |-> S.tail, hs |-> S.hs,
            R  |-> {h \in Hs : Readable(S, h)},
            RH |-> {h \in Hs : ByHash(S, h)},
            KH |-> S.dH, KI |-> S.dI, hp |-> S.hp, tp |-> S.tp]

NoLast == [op |-> "none", b |-> <<>>, from |-> 0, to |-> 0, failAt |-> 0, fk |-> "", res |-> "ok", calls |-> <<>>,
           gone |-> {}, kind |-> "", ws |-> <<>>]

Init ==
  /\ dH = {} /\ dI = {} /\ hp = 0 /\ tp = 0
  /\ pend = {} /\ head = 0 /\ tail = 0 /\ hs = 0 /\ up = TRUE
  /\ wq = <<>> /\ fin = [mem |-> St, set |-> FALSE, up |-> TRUE]
  /\ live = {} /\ deleted = {} /\ last = NoLast /\ nops = 0 /\ hist = <<>> /\ dirty = FALSE

Idle == up /\ wq = <<>> /\ ~fin.set /\ nops < MaxOps

Batches == UNION {[1..n -> Hs] : n \in 1..MaxBatch}

\* an operation is started: its writes are queued, its final memory state remembered
Begin(rec, m, ws) ==
  /\ wq' = ws
  /\ fin' = [mem |-> m, set |-> TRUE, up |-> TRUE]
  /\ last' = [rec EXCEPT !.ws = ws]
  /\ UNCHANGED <<dH, dI, hp, tp, pend, head, tail, hs, up, nops, hist, dirty>>

MaxStored == IF dH = {} THEN 0 ELSE CHOOSE m \in dH : \A x \in dH : x <= m

AppendOp(b) ==
  /\ Idle
  /\ dirty => (MaxStored + 2 <= N /\ b = <<MaxStored + 1, MaxStored + 2>>)
  /\ LET r == FlushResult(St, b) IN
     /\ Begin([NoLast EXCEPT !.op = "append", !.b = b], r.mem, r.ws)
     /\ live' = live \cup Range(b)
     /\ deleted' = deleted \ Range(b)

DeleteOp(from, to, failAt, fk) ==
  /\ Idle /\ ~dirty
  \* a deadline can only pass while headers are being deleted: some header below failAt must exist
  /\ (fk = "timeout" => failAt > from /\ \E h \in from..(failAt - 1) : Found(FlushNil(St).mem, h))
  /\ LET r == DelResult(St, from, to, failAt, fk) IN
     /\ Begin([NoLast EXCEPT !.op = "delete", !.from = from, !.to = to, !.failAt = failAt, !.fk = fk,
                             !.res = r.res, !.calls = r.calls, !.gone = r.gone, !.kind = r.kind], r.mem, r.ws)
     \* a deletion that fails part-way makes no promise about the rest of its range until it is retried
     /\ live' = IF r.res = "ok" \/ r.kind \notin {"wipe", "tail", "head"} THEN live \ r.gone ELSE live \ (from..(to - 1))
     /\ deleted' = deleted \cup r.gone

\* Sync: drain the queue and force the pending batch on disk
SyncOp ==
  /\ Idle
  /\ LET r == FlushNil(St) IN Begin([NoLast EXCEPT !.op = "sync"], r.mem, r.ws)
  /\ UNCHANGED <<live, deleted>>

\* Stop: drain, forced commit of whatever is pending, deinit
StopOp ==
  /\ Idle
  /\ LET r == FlushNil(St) IN
     /\ wq' = r.ws
     /\ fin' = [mem |-> [r.mem EXCEPT !.head = 0, !.tail = 0, !.hs = 0], set |-> TRUE, up |-> FALSE]
     /\ last' = [NoLast EXCEPT !.op = "stop", !.ws = r.ws]
  /\ UNCHANGED <<dH, dI, hp, tp, pend, head, tail, hs, up, nops, hist, live, deleted, dirty>>

Write ==
  /\ wq # <<>>
  /\ ApplyWrite(Head(wq))
  /\ wq' = Tail(wq)
  /\ UNCHANGED <<pend, head, tail, hs, up, fin, live, deleted, last, nops, hist, dirty>>

Finish ==
  /\ wq = <<>> /\ fin.set
  /\ pend' = fin.mem.pend /\ head' = fin.mem.head /\ tail' = fin.mem.tail /\ hs' = fin.mem.hs
  /\ up' = fin.up
  /\ fin' = [fin EXCEPT !.set = FALSE]
  /\ nops' = nops + 1
  /\ hist' = Append(hist, [op |-> last, proj |-> Proj([fin.mem EXCEPT !.dH = dH, !.dI = dI, !.hp = hp, !.tp = tp]),
                            live |-> live, deleted |-> deleted])
  /\ UNCHANGED <<dH, dI, hp, tp, wq, live, deleted, last, dirty>>

\* Start on a fresh object: init() reads the pointers, dropping dangling ones (readByKey)
StartOp ==
  /\ ~up /\ wq = <<>> /\ ~fin.set /\ nops < MaxOps
  /\ LET hOK == hp # 0 /\ hp \in dH
         tOK == tp # 0 /\ tp \in dH
         ws  == (IF hp # 0 /\ ~hOK THEN <<WDelHeadPtr>> ELSE <<>>) \o (IF tp # 0 /\ ~tOK THEN <<WDelTailPtr>> ELSE <<>>)
         \* one pointer survived, the other one was dropped: walk from the surviving end (repair of D24)
         S0  == [St EXCEPT !.pend = {}, !.head = IF hOK THEN hp ELSE 0, !.tail = IF tOK THEN tp ELSE 0]
         nh  == IF hOK THEN hp ELSE IF tOK THEN UpFrom([S0 EXCEPT !.head = tp], tp) ELSE 0
         nt  == IF tOK THEN tp ELSE IF hOK THEN DownFrom([S0 EXCEPT !.tail = hp], hp) ELSE 0
     IN /\ wq' = ws
        /\ fin' = [mem |-> [St EXCEPT !.pend = {}, !.head = nh, !.tail = nt, !.hs = nh], set |-> TRUE, up |-> TRUE]
        /\ last' = [NoLast EXCEPT !.op = "start", !.ws = ws]
  /\ UNCHANGED <<dH, dI, hp, tp, pend, head, tail, hs, up, nops, hist, live, deleted, dirty>>

\* Crash: volatile state is lost at any write boundary; what was only pending is gone
Crash ==
  /\ Crashes /\ up
  /\ (wq # <<>> \/ pend # {} \/ fin.set)                 \* otherwise identical to Stop;Start
  /\ pend' = {} /\ head' = 0 /\ tail' = 0 /\ hs' = 0 /\ up' = FALSE
  /\ wq' = <<>> /\ fin' = [fin EXCEPT !.set = FALSE]
  /\ live' = live \cap dH
  /\ deleted' = IF (wq # <<>> \/ fin.set) /\ last.op = "delete" THEN deleted \ last.gone ELSE deleted  \* that call never returned
  /\ dirty' = TRUE      \* from here on only what C06 promises is explored: Start, then the continuation of the chain
  /\ last' = [NoLast EXCEPT !.op = "crash"]
  /\ nops' = nops + 1
  /\ hist' = Append(hist, [op |-> [NoLast EXCEPT !.op = "crash"], proj |-> Proj([St EXCEPT !.pend = {}, !.head = 0, !.tail = 0, !.hs = 0]),
                            live |-> live \cap dH, deleted |-> deleted])
  /\ UNCHANGED <<dH, dI, hp, tp>>

Next ==
  \/ \E b \in Batches : AppendOp(b)
  \/ \E from \in 0..(N + 1), to \in 0..(N + 2) :
        \E f \in (IF Faults THEN {0} \cup (from..(to - 1)) ELSE {0}) :
           \E fk \in (IF f = 0 THEN {"handler"} ELSE {"handler", "timeout"}) : DeleteOp(from, to, f, fk)
  \/ SyncOp \/ StopOp \/ StartOp \/ Write \/ Finish \/ Crash

Spec == Init /\ [][Next]_vars

-----------------------------------------------------------------------------
(* Property layer *)

Quiet == up /\ wq = <<>> /\ ~fin.set
P == Proj(St)

\* C04 (a) Tail <= Head and the whole range is readable by height and by hash
C04_RangeReadable ==
  Quiet /\ head # 0 /\ tail # 0 =>
     tail <= head /\ \A h \in tail..head : Readable(St, h) /\ ByHash(St, h)
\* C04 (b) every appended and not deleted header is readable wherever it sits
C04_LiveReadable == Quiet => \A h \in live : Readable(St, h) /\ ByHash(St, h)
\* C04 (c) Head is the top of its contiguous run
C04_HeadTopOfRun == Quiet /\ head # 0 => (head + 1) \notin live
\* C04 (f) Height() = Head().Height()
C04_HeightIsHead == Quiet /\ head # 0 => hs = head
\* C08 deleted headers are gone for good: by height, by hash and as raw keys
C08_GoneForGood == Quiet => \A h \in deleted : ~Readable(St, h) /\ ~ByHash(St, h) /\ h \notin dH /\ h \notin dI
\* C08 pointers describe what remains
C08_Pointers == Quiet /\ head # 0 /\ tail # 0 => Readable(St, head) /\ Readable(St, tail)
\* C06 on-disk pointers never dangle at a quiescent point and agree with memory once everything is flushed
C06_DiskPointers == Quiet /\ hp # 0 => hp \in dH \/ hp \in pend
C06_DiskTail     == Quiet /\ tp # 0 => tp \in dH \/ tp \in pend
\* C06: after recovery, appending the continuation of the chain brings Head to the new tip
C06_ContinuationAdvances ==
  Quiet /\ dirty /\ last.op = "append" => head = last.b[2]
PendImpliesInit  == pend # {} => head # 0 /\ tail # 0

\* action properties about the operation that completes in this step (checked on every edge)
Finishing == wq = <<>> /\ fin.set /\ ~fin'.set /\ up' = up

\* C08: a range that is not a tail-prefix, head-suffix or the whole chain is rejected without any effect
C08_RejectsOthers ==
  [][Finishing /\ last.op = "delete" /\ last.kind \notin {"wipe", "tail", "head"} =>
       \* (the Sync it starts with may complete a deferred advanceHead, e.g. after crash recovery — nothing else)
       last.res = "err" /\ tail' = tail /\ (head' = head \/ (head' > head /\ \A h \in head..head' : Readable(St, h)))
       /\ (head' = head => hs' = hs)
       /\ \A h \in Hs : (Readable(St, h) <=> Readable(fin.mem, h)) /\ (ByHash(St, h) <=> ByHash(fin.mem, h))]_vars
\* C08: every header outside the range is untouched, whatever the outcome
C08_OutsideUntouched ==
  [][Finishing /\ last.op = "delete" =>
       \A h \in Hs \ (last.from..(last.to - 1)) :
           (ByHash(St, h) <=> ByHash(fin.mem, h))]_vars
\* C08: success moves the pointers to describe exactly what remains
C08_PointersAfter ==
  [][Finishing /\ last.op = "delete" /\ last.res = "ok" =>
       CASE last.kind = "tail" -> tail' = last.to /\ tp' = last.to
         [] last.kind = "head" -> head' = last.from - 1 /\ hp' = last.from - 1
         [] last.kind = "wipe" -> head' = 0 /\ tail' = 0 /\ hp' = 0 /\ tp' = 0
         [] OTHER -> FALSE]_vars
\* C14: handlers are invoked exactly for the removed headers (+ the failing one), once each, ascending
C14_CallsMatchGone ==
  [][Finishing /\ last.op = "delete" =>
       /\ \A h \in last.gone : \E i \in DOMAIN last.calls : last.calls[i] = h
       /\ \A i, j \in DOMAIN last.calls : i < j => last.calls[i] < last.calls[j]
       /\ (last.res = "ok" => Range(last.calls) = last.gone)]_vars
\* C14: a failing handler keeps its header readable and the call reports an error
C14_FailureKeeps ==
  [][Finishing /\ last.op = "delete" /\ last.failAt \in Range(last.calls) =>
       last.res = "err" /\ last.failAt \notin last.gone
       /\ ByHash(fin.mem, last.failAt)]_vars
\* C06: a clean Stop;Start preserves everything (checked at the Start that follows a Stop)
C06_CleanRestartSame ==
  [][Finishing /\ last.op = "stop" => pend' = {} /\ \A h \in live : h \in dH /\ h \in dI]_vars

TypeOK ==
  /\ dH \subseteq Hs /\ dI \subseteq Hs /\ pend \subseteq Hs
  /\ hp \in 0..N /\ tp \in 0..N /\ head \in 0..N /\ tail \in 0..N /\ hs \in 0..N

-----------------------------------------------------------------------------
(* Export: one line per generated edge that completes an operation (transition cover under VIEW) *)
ExportEdge ==
  IF Len(hist) > 0 /\ ~fin.set /\ wq = <<>> /\ hist[Len(hist)].op = last
  THEN PrintT(ToJson([k |-> "STORE", n |-> N, bsz |-> B, ctx |-> Ctx, hist |-> hist]))
  ELSE TRUE
=============================================================================
