----------------------------- MODULE Subscriber -----------------------------
(***************************************************************************)
(* p2p.Subscriber.verifyMessage / extractHeader (p2p/subscriber.go) as a   *)
(* decision table — C11: payload class x verifier outcome -> gossipsub     *)
(* verdict, delivery to Subscriptions, relay to other peers.               *)
(***************************************************************************)
EXTENDS Naturals, Sequences, FiniteSets, TLC, Json

VARIABLES in, phase, out
vars == <<in, phase, out>>

Payloads  == {"valid", "invalid", "undecodable", "empty", "decodepanic", "local", "localInvalid"}   \* local = Broadcast on the node itself
Verifiers == {"nil", "soft", "wrapSoft", "hard", "wrapHard", "plain", "panic", "notset"}
\* (a local Broadcast before SetVerifier blocks inside gossipsub until the node shuts down — gossipsub validates local
\* messages under its own root context — so that cell has no observable outcome and is not part of the table)
Inputs == {i \in [payload : Payloads, verifier : Verifiers] : ~(i.payload \in {"local", "localInvalid"} /\ i.verifier = "notset")}

Obs(v, d, r) == [verdict |-> v, delivered |-> d, relayed |-> r]

Decodes(p) == p \in {"valid", "invalid", "local", "localInvalid"}
Good(p)    == p \in {"valid", "local"}           \* decodes and passes Validate

\* implementation layer: verifyMessage in code order
Predicted(i) ==
  IF ~Good(i.payload) THEN Obs("reject", FALSE, FALSE)                \* extractHeader error or panic -> Reject
  ELSE CASE i.verifier = "notset"              -> Obs("none", FALSE, FALSE)     \* waits for SetVerifier (Ignore when the node's context ends)
         [] i.verifier \in {"soft", "wrapSoft"} -> Obs("ignore", FALSE, FALSE)
         [] i.verifier = "nil"                  -> Obs("accept", TRUE, TRUE)
         [] OTHER                               -> Obs("reject", FALSE, FALSE)

\* property layer
ShouldAccept(i) == Good(i.payload) /\ i.verifier = "nil"
Allowed(i, o) ==
  /\ o.delivered = ShouldAccept(i)
  /\ o.relayed = ShouldAccept(i)
  /\ (ShouldAccept(i) => o.verdict = "accept")
  /\ (Good(i.payload) /\ i.verifier \in {"soft", "wrapSoft"} => o.verdict = "ignore")          \* no penalty
  /\ (~Good(i.payload) \/ i.verifier \in {"hard", "wrapHard", "plain", "panic"} => o.verdict = "reject")
  /\ (Good(i.payload) /\ i.verifier = "notset" => o.verdict \in {"none", "ignore", "reject"})

Init == in \in Inputs /\ phase = "in" /\ out = Obs("", FALSE, FALSE)
Next == phase = "in" /\ phase' = "out" /\ out' = Predicted(in) /\ UNCHANGED in

PredictedAllowed == phase = "out" => Allowed(in, out)
Export == phase = "out" => PrintT(ToJson([k |-> "C11", in |-> in, predicted |-> out]))
=============================================================================
