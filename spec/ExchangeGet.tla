---------------------------- MODULE ExchangeGet ----------------------------
(***************************************************************************)
(* p2p.Exchange.Get / GetByHeight (p2p/exchange.go: performRequest,        *)
(* request; p2p/session.go: processResponses) — C13: every trusted peer is *)
(* asked in parallel, the first answer (in arrival order) that decodes,    *)
(* validates and carries the configured chain id wins.                     *)
(***************************************************************************)
EXTENDS Naturals, Sequences, FiniteSets, TLC, Json

CONSTANTS MaxPeers

VARIABLES in, phase, out
vars == <<in, phase, out>>

\* answer classes of one trusted peer
Classes == {"valid", "otherHash", "wrongchain", "nochain", "invalid", "malformed", "unknownStatus", "notfound",
            "empty", "truncated", "tooMany", "hang", "noStream"}     \* nochain: a header that names no chain at all
\* classes whose answer passes request(): status OK, decodes, Validate, chain id
Passes == {"valid", "otherHash", "tooMany"}
\* which header such an answer carries: the requested one, or another valid header of the chain
Carries(c) == IF c \in {"valid", "tooMany"} THEN "wanted" ELSE "other"

Perms(n) == {p \in [1..n -> 1..n] : \A i, j \in 1..n : i # j => p[i] # p[j]}
Inputs == UNION {{[op |-> o, ans |-> a, order |-> p] : o \in {"Get", "GetByHeight"}, a \in [1..n -> Classes], p \in Perms(n)} : n \in 1..MaxPeers}
\* canonical order: peers that never produce an answer event (hang) are listed last
Wellformed(i) == \A k, m \in DOMAIN i.order : (k < m /\ i.ans[i.order[k]] = "hang") => i.ans[i.order[m]] = "hang"

Res(hdr, err) == [hdr |-> hdr, err |-> err]     \* hdr: "wanted" | "other" | "zero"; err: BOOLEAN (non-nil error)

RECURSIVE First(_, _)
First(i, k) ==          \* first arriving answer that passes; 0 if none
  IF k > Len(i.ans) THEN 0
  ELSE IF i.ans[i.order[k]] = "hang" THEN 0          \* blocks until the request timeout: error
  ELSE IF i.ans[i.order[k]] \in Passes THEN i.order[k]
  ELSE First(i, k + 1)

Predicted(i) ==
  LET f == First(i, 1) IN
  IF f = 0 THEN Res("zero", TRUE)
  ELSE LET c == Carries(i.ans[f]) IN
       IF i.op = "Get" /\ c = "other" THEN Res("zero", TRUE)      \* hash check after the first valid response
       ELSE Res(c, FALSE)

\* property layer
Allowed(i, r) ==
  LET f == First(i, 1) IN
  /\ (r.err <=> r.hdr = "zero")                                   \* never a zero header with a nil error (nor a header with an error)
  /\ (i.op = "Get" /\ ~r.err => r.hdr = "wanted")                  \* Get is bound to the requested hash
  /\ (f = 0 => r.err)                                              \* nobody answers validly: error
  /\ (~r.err => f # 0 /\ r.hdr = Carries(i.ans[f]))                \* taken from the first peer that answers validly
  /\ (f # 0 /\ (i.op = "GetByHeight" \/ Carries(i.ans[f]) = "wanted") => ~r.err)

Init == in \in {i \in Inputs : Wellformed(i)} /\ phase = "in" /\ out = Res("", FALSE)
Next == phase = "in" /\ phase' = "out" /\ out' = Predicted(in) /\ UNCHANGED in
PredictedAllowed == phase = "out" => Allowed(in, out)
Export == phase = "out" => PrintT(ToJson([k |-> "C13", in |-> in, predicted |-> out]))
=============================================================================
