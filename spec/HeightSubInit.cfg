CONSTANTS Setters = {"S1"}
 Waiters = {"W1", "W2"}
 MaxH = 2
 MaxG = 3
 UseCAS = TRUE
 WithInit = TRUE
SPECIFICATION Spec
INVARIANTS OkWasAvailable
CHECK_DEADLOCK FALSE
