--------------------------- MODULE ExchangeHeadTrace ---------------------------
(* C09 property layer over observed results of the real Exchange.Head with gated scripted peers. *)
EXTENDS ExchangeHead, IOUtils
Trace == ndJsonDeserialize(IOEnv.TRACE)
VARIABLE l
If(c, name) == IF c THEN {name} ELSE {}
Clauses(rec) ==
  LET i == rec.in
      r == rec.obs
      qa == QuorumAt(i)
      top == {a \in ArrivedUsable(i) : \A y \in ArrivedUsable(i) : HeightOf(y) <= HeightOf(a)}
  IN   If(rec.panicked, "C09_no_crash")
  \cup If(r.id \notin Ids \cup {"zero"}, "C09_returns_a_reported_header")
  \cup If(r.err = "nil" /\ (r.id \notin Ids \/ (i.trusted /\ ClassOf(r.id) # "ok")), "C09_nil_error_means_header_passed_Verify")
  \cup If(r.id \in Ids /\ i.trusted /\ ClassOf(r.id) = "hard", "C09_never_a_header_failing_verification")
  \cup If(r.id \in Ids /\ i.trusted /\ ClassOf(r.id) = "soft" /\ r.err # "soft", "C09_soft_header_only_with_its_SoftFailure_error")
  \cup If(r.err = "soft" /\ ~(r.id \in Ids /\ i.trusted /\ ClassOf(r.id) = "soft"), "C09_soft_header_only_with_its_SoftFailure_error")
  \cup If((r.id = "zero") # (r.err \in {"notfound", "ctx", "other"}), "C09_zero_header_iff_error")
  \cup If(qa[1] # 0 /\ r.id # qa[2], "C09_quorum_header_returned_as_soon_as_it_exists")
  \cup If(qa[1] = 0 /\ ~AnyHang(i) /\ ArrivedUsable(i) = {} /\ r # Res("zero", "notfound"), "C09_ErrNotFound_and_zero_header_when_nobody_supplied_one")
  \cup If(qa[1] = 0 /\ ~AnyHang(i) /\ ArrivedUsable(i) # {} /\ r.id \notin top, "C09_else_the_highest_header_reported")
  \cup If(qa[1] = 0 /\ AnyHang(i) /\ r # Res("zero", "ctx") /\ r.id \notin top, "C09_else_the_highest_header_reported")
TInit == l = 1 /\ in = [trusted |-> FALSE] /\ phase = "trace" /\ out = Res("", "")
TNext == /\ l <= Len(Trace)
         /\ LET F == Clauses(Trace[l]) IN IF F = {} THEN TRUE ELSE PrintT(ToJson([k |-> "FAIL", l |-> l, tr |-> Trace[l].tr, preds |-> F]))
         /\ l' = l + 1 /\ UNCHANGED vars
Consumed == TLCGet("stats").diameter - 1 = Len(Trace)
=============================================================================
