CONSTANT Variant = "code"
INIT TInit
NEXT TNext
CHECK_DEADLOCK FALSE
POSTCONDITION Consumed
