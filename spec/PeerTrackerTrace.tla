-------------------------- MODULE PeerTrackerTrace --------------------------
(***************************************************************************)
(* Property layer over traces recorded by harness/p2ph TestTracker: a real *)
(* Exchange whose peers connect, disconnect, earn scores, are blocked and  *)
(* age, followed by a real GetRangeByHeight.  Each event carries the full  *)
(* observation (tracker maps through the verif accessors, libp2p's own     *)
(* Connectedness, what a session / a Head request would use).              *)
(***************************************************************************)
EXTENDS Naturals, Sequences, FiniteSets, TLC, Json, IOUtils

Trace == ndJsonDeserialize(IOEnv.TRACE)
VARIABLES l, prev, age          \* age[p] = ticks since p was seen moving to the disconnected peers
vars == <<l, prev, age>>

SetOf(s) == {s[i] : i \in DOMAIN s}
If(c, name) == IF c THEN {name} ELSE {}
Min(a, b) == IF a <= b THEN a ELSE b
NoObs == [tracked |-> {}, disc |-> {}, score |-> <<>>, conn |-> {}, blocked |-> {}]
O(e) == [tracked |-> SetOf(e.tracked), disc |-> SetOf(e.disc), score |-> e.score, conn |-> SetOf(e.conn),
         blocked |-> SetOf(e.blocked)]

Clauses(e, p, o, ag) ==
  IF e.op = "range"
  THEN If(e.panicked, "C18_no_crash")
    \cup If(e.hung, "C18_request_ends")
    \cup If((p.conn \ p.blocked) # {} /\ ~(e.rangeOK /\ e.heights = <<2, 3, 4, 5>>), "C18_range_served_by_a_connected_capable_peer_after_churn")
    \cup If(e.rangeOK /\ e.heights # <<2, 3, 4, 5>>, "C05_returned_range_is_exact")
  ELSE If(o.tracked \cap o.disc # {}, "PT_one_record_per_peer")
    \cup If(~(o.tracked \subseteq o.conn), "PT_tracked_peers_are_connected")
    \cup If(~((o.conn \ o.blocked) \subseteq o.tracked), "PT_connected_peers_are_tracked")
    \cup If(o.blocked \cap (o.tracked \cup SetOf(e.session) \cup SetOf(e.headp)) # {}, "PT_blocked_peer_not_used")
    \cup If(SetOf(e.session) # o.tracked, "PT_session_uses_the_tracked_peers")
    \cup If(~(SetOf(e.headp) \subseteq o.tracked /\ Len(e.headp) = Min(2, Cardinality(o.tracked))), "PT_head_request_uses_tracked_peers_up_to_max")
    \cup If(e.op = "connect" /\ e.p \in p.disc /\ e.p \in o.tracked /\ o.score[e.p] # p.score[e.p], "PT_returning_peer_keeps_its_score")
    \cup If(\E q \in p.disc : q \notin o.disc /\ q \notin o.tracked /\ ~(e.op = "tick" /\ ag[q] >= 1), "PT_only_expired_peers_are_pruned")
    \cup If(e.op = "tick" /\ \E q \in p.disc : ag[q] >= 1 /\ q \in o.disc, "PT_expired_peers_are_pruned")
    \cup If(\E q \in o.tracked \cup o.disc : o.score[q] = 0, "PT_record_has_a_score")

Init == l = 1 /\ prev = NoObs /\ age = <<>>

Step ==
  /\ l <= Len(Trace)
  /\ LET e  == Trace[l]
         fresh == e.i = 0
         p  == IF fresh THEN NoObs ELSE prev
         ag == IF fresh THEN <<>> ELSE age
         o  == O(e)
         F  == Clauses(e, p, o, [q \in p.disc |-> IF q \in DOMAIN ag THEN ag[q] ELSE 0])
     IN /\ (IF F = {} THEN TRUE ELSE PrintT(ToJson([k |-> "FAIL", l |-> l, tr |-> e.tr, i |-> e.i, op |-> e.op, preds |-> F])))
        /\ prev' = o
        /\ age' = [q \in o.disc |-> IF q \in p.disc /\ q \in DOMAIN ag THEN (IF e.op = "tick" THEN ag[q] + 1 ELSE ag[q]) ELSE 0]
  /\ l' = l + 1

Next == Step
Consumed == TLCGet("stats").diameter - 1 = Len(Trace)
=============================================================================
