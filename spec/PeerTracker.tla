---------------------------- MODULE PeerTracker ----------------------------
(***************************************************************************)
(* p2p/peer_tracker.go: the set of peers an Exchange may send requests to. *)
(* libp2p reports connectedness changes on an event bus; track() consumes  *)
(* them one at a time (connected / disconnected); gc() prunes peers that   *)
(* stayed disconnected longer than maxAwaitingTime; a session blocks a     *)
(* misbehaving peer (conn gater + ClosePeer).                              *)
(*                                                                         *)
(* The tracker is what C09 (which peers are asked for their head) and      *)
(* C05/C18 (which peers a range session may use) stand on: a session's     *)
(* queue is peers() at session start, Head() asks getPeers(max).           *)
(*                                                                         *)
(* Environment = the network: peers connect and disconnect at will, the    *)
(* bus delivers events in order but asynchronously, so the tracker acts on *)
(* an event while the network has already moved on.                        *)
(***************************************************************************)
EXTENDS Naturals, Sequences, FiniteSets, TLC, Json

CONSTANTS Peers,       \* remote peers
          MaxSize,     \* maxPeerTrackerSize
          MaxAwait,    \* maxAwaitingTime in ticks
          MaxTime,     \* bound on the clock (model finiteness)
          MaxEvents,   \* bound on the number of network events (model finiteness)
          Kinds,       \* connection kinds the network may produce: subset of {"full", "limited"}
          Atomic       \* TRUE: every network step is followed by the delivery of its event (export configuration)

VARIABLES conn,        \* [Peers -> {"none", "full", "limited"}]  what the network really looks like
          evq,         \* undelivered bus events: sequence of [t |-> "conn" | "disc", p |-> peer]
          tracked,     \* trackedPeers (key set)
          disc,        \* disconnectedPeers: [subset of Peers -> prune deadline]
          score,       \* [Peers -> 0..2]  0 = no record, 1 = defaultScore, 2 = earned by answering requests
          blocked,     \* conn gater block list
          now,         \* clock
          nev,         \* number of network events so far
          skipped,     \* history: peers whose Connected event was dropped because the tracker was full
          last,        \* last step, for the export
          hist         \* history of steps with the predicted projection (export only; hidden by VIEW)

vars == <<conn, evq, tracked, disc, score, blocked, now, nev, skipped, last, hist>>

Dom(f) == DOMAIN f
Drop(f, S) == [x \in Dom(f) \ S |-> f[x]]
Put(f, x, v) == [y \in Dom(f) \cup {x} |-> IF y = x THEN v ELSE f[y]]

Init ==
  /\ conn = [p \in Peers |-> "none"] /\ evq = <<>> /\ tracked = {} /\ disc = <<>>
  /\ score = [p \in Peers |-> 0] /\ blocked = {} /\ now = 0 /\ nev = 0 /\ skipped = {} /\ last = [op |-> "init"] /\ hist = <<>>

-----------------------------------------------------------------------------
(* the tracker's reaction to one event — peerTracker.connected / disconnected; c = the network when the event is handled *)
Full(tr, dc) == Cardinality(tr) + Cardinality(Dom(dc)) > MaxSize /\ Cardinality(tr) > Cardinality(Dom(dc))

OnConnected(p, c, tr, dc, sc) ==
  IF c[p] = "limited" THEN <<tr, dc, sc, skipped>>                            \* short-lived (relayed) connection: skipped
  ELSE IF Full(tr, dc) THEN <<tr, dc, sc, skipped \cup {p}>>                   \* tracker full
  ELSE IF p \in Dom(dc) THEN <<tr \cup {p}, Drop(dc, {p}), sc, skipped>>       \* came back in time: the old record (score) is reused
  ELSE <<tr \cup {p}, dc, [sc EXCEPT ![p] = 1], skipped>>                      \* new record (also overwrites a tracked one)

OnDisconnected(p, tr, dc, sc) ==
  IF p \notin tr THEN <<tr, dc, sc, skipped \ {p}>>
  ELSE <<tr \ {p}, Put(dc, p, now + MaxAwait), sc, skipped>>

React(e, c, tr, dc, sc) == IF e.t = "conn" THEN OnConnected(e.p, c, tr, dc, sc) ELSE OnDisconnected(e.p, tr, dc, sc)

\* a network step to state c2 that the bus reports as event e: queued, or (Atomic) handled at once
Emit(e, c2) ==
  /\ conn' = c2 /\ nev' = nev + 1
  /\ IF Atomic
     THEN LET r == React(e, c2, tracked, disc, score) IN
          tracked' = r[1] /\ disc' = r[2] /\ score' = r[3] /\ skipped' = r[4] /\ evq' = evq
     ELSE evq' = Append(evq, e) /\ UNCHANGED <<tracked, disc, score, skipped>>
Silent(c2) == conn' = c2 /\ nev' = nev + 1 /\ UNCHANGED <<evq, tracked, disc, score, skipped>>

NetConnect(p, kind) ==
  /\ nev < MaxEvents /\ conn[p] = "none" /\ p \notin blocked
  /\ IF kind = "full" THEN Emit([t |-> "conn", p |-> p], [conn EXCEPT ![p] = "full"])
     ELSE Silent([conn EXCEPT ![p] = "limited"])       \* connectedness becomes Limited: no Connected event
  /\ UNCHANGED <<blocked, now>>
  /\ last' = [op |-> "connect", p |-> p, kind |-> kind]

NetDisconnect(p) ==
  /\ nev < MaxEvents /\ conn[p] # "none"
  /\ IF conn[p] = "full" THEN Emit([t |-> "disc", p |-> p], [conn EXCEPT ![p] = "none"])
     ELSE Silent([conn EXCEPT ![p] = "none"])
  /\ UNCHANGED <<blocked, now>>
  /\ last' = [op |-> "disconnect", p |-> p]

\* track(): one bus event is consumed
Deliver ==
  /\ ~Atomic /\ evq # <<>>
  /\ LET r == React(Head(evq), conn, tracked, disc, score) IN
     tracked' = r[1] /\ disc' = r[2] /\ score' = r[3] /\ skipped' = r[4]
  /\ evq' = Tail(evq)
  /\ UNCHANGED <<conn, blocked, now, nev>>
  /\ last' = [op |-> "deliver"]

\* a session earned the peer a score (updateStats / decreaseScore act on the shared record)
Earn(p) ==
  /\ p \in tracked /\ score[p] = 1
  /\ score' = [score EXCEPT ![p] = 2]
  /\ UNCHANGED <<conn, evq, tracked, disc, blocked, now, nev, skipped>>
  /\ last' = [op |-> "earn", p |-> p]

\* a session blocks a misbehaving peer: gater + ClosePeer (the disconnection is reported like any other)
Block(p) ==
  /\ nev < MaxEvents /\ p \in tracked /\ p \notin blocked
  /\ blocked' = blocked \cup {p}
  /\ IF conn[p] = "full" THEN Emit([t |-> "disc", p |-> p], [conn EXCEPT ![p] = "none"])
     ELSE UNCHANGED <<conn, nev, evq, tracked, disc, score, skipped>>
  /\ UNCHANGED now
  /\ last' = [op |-> "block", p |-> p]

Tick ==
  /\ ~Atomic /\ now < MaxTime /\ now' = now + 1
  /\ UNCHANGED <<conn, evq, tracked, disc, score, blocked, nev, skipped>>
  /\ last' = [op |-> "tick"]

\* gc(): cleanUpDisconnectedPeers
GC ==
  /\ ~Atomic
  /\ LET gone == {p \in Dom(disc) : disc[p] < now} IN
     /\ disc' = Drop(disc, gone)
     /\ score' = [p \in Peers |-> IF p \in gone THEN 0 ELSE score[p]]
  /\ UNCHANGED <<conn, evq, tracked, blocked, now, nev, skipped>>
  /\ last' = [op |-> "gc"]

\* export configuration: the gc ticker (5 min) is far shorter than a tick, so a tick is followed by a gc cycle
TickGC ==
  /\ Atomic /\ now < MaxTime /\ now' = now + 1
  /\ LET gone == {p \in Dom(disc) : disc[p] < now + 1} IN
     /\ disc' = Drop(disc, gone)
     /\ score' = [p \in Peers |-> IF p \in gone THEN 0 ELSE score[p]]
  /\ UNCHANGED <<conn, evq, tracked, blocked, nev, skipped>>
  /\ last' = [op |-> "tick"]

Proj(tr, dc, sc, bl) == [tracked |-> tr, disc |-> Dom(dc), score |-> sc, blocked |-> bl]

Step ==
  \/ \E p \in Peers, k \in Kinds : NetConnect(p, k)
  \/ \E p \in Peers : NetDisconnect(p) \/ Earn(p) \/ Block(p)
  \/ Deliver \/ Tick \/ GC \/ TickGC

Next == Step /\ hist' = IF Atomic THEN Append(hist, [op |-> last', proj |-> Proj(tracked', disc', score', blocked'), conn |-> conn'])
                         ELSE hist

Spec == Init /\ [][Next]_vars

-----------------------------------------------------------------------------
(* Design-level properties *)
TypeOK ==
  /\ tracked \subseteq Peers /\ Dom(disc) \subseteq Peers /\ blocked \subseteq Peers
  /\ \A p \in Dom(disc) : disc[p] \in 0..(MaxTime + MaxAwait)

\* a peer has one record: never in both maps
OneRecord == tracked \cap Dom(disc) = {}

Quiescent == evq = <<>>

\* once the bus is drained every tracked peer is really connected, with a long-lived connection
TrackedAreConnected == Quiescent => \A p \in tracked : conn[p] = "full"
\* and a blocked peer is not used again
BlockedNotTracked == Quiescent => tracked \cap blocked = {}
\* once the bus is drained every fully connected peer is tracked, unless the tracker was full when it arrived
\* (such a peer stays unused until it reconnects, even if it has a record among the disconnected ones)
Size == Cardinality(tracked) + Cardinality(Dom(disc))
ConnectedAreTracked ==
  Quiescent => \A p \in Peers : (conn[p] = "full" /\ p \notin skipped) => p \in tracked
\* a record that is kept has a score
RecordsHaveScore == \A p \in tracked \cup Dom(disc) : score[p] >= 1

\* a peer that returns before it is pruned keeps the score it earned
ScoreKept == [][\A p \in Peers : (p \in Dom(disc) /\ p \in tracked') => score'[p] = score[p]]_vars
\* pruning removes only records whose deadline has passed
PruneOnlyExpired == [][\A p \in Dom(disc) : (p \notin Dom(disc') /\ p \notin tracked') => disc[p] < now]_vars

-----------------------------------------------------------------------------
(* Export: one behaviour per edge of the Atomic graph *)
view == <<conn, evq, tracked, disc, score, blocked, now, nev, skipped>>
ExportEdge == IF Len(hist) > 0 THEN PrintT(ToJson([k |-> "PT", n |-> Cardinality(Peers), hist |-> hist])) ELSE TRUE
=============================================================================
