--------------------------- MODULE HeightSubTrace ---------------------------
(***************************************************************************)
(* Trace validation of the real store.heightSub against HeightSub.tla.     *)
(*                                                                         *)
(* harness/conch (TestHeightSub) drives a bare heightSub through seeded    *)
(* walks over its own schedule space: up to three concurrent SetHeight     *)
(* callers, Notify calls, up to four WaitUnless callers, cancellations;    *)
(* every verif yield point parks its goroutine, one parked goroutine or    *)
(* one new call is released per step.  After each step it records the      *)
(* event (process, action, argument) and what the code shows: Height(),    *)
(* where every goroutine is parked, what every finished waiter returned.   *)
(*                                                                         *)
(* Validation: the event is applied to the model state with the SAME       *)
(* function Do that TLC model-checks in HeightSub.tla; a successor must    *)
(* exist whose height, program counters and waiter results equal the       *)
(* recorded ones (the one nondeterministic place, a select with both cases *)
(* ready, is resolved by the recorded result).  A step the model cannot    *)
(* explain is reported as k = "DRIFT" (the rest of that trace is then only *)
(* judged by the clauses).  The property clauses are evaluated on the      *)
(* recorded observations alone and reported as k = "FAIL".                 *)
(***************************************************************************)
EXTENDS HeightSub, Json, IOUtils

Trace == ndJsonDeserialize(IOEnv.TRACE)
VARIABLES l, bad, prevH, prevRes, avail
SetOf(s) == {s[i] : i \in DOMAIN s}
If(c, name) == IF c THEN {name} ELSE {}

Matches(s, e) == /\ s.height = e.height
                 /\ \A q \in Setters : s.spc[q] = e.pcs[q]
                 /\ \A w \in Waiters : s.wpc[w] = e.pcs[w] /\ s.wres[w] = e.res[w]

\* clauses over the recorded observation (no model state involved)
\* pr = the waiters' results before this event: a result is judged at the step that produced it (with Init calls in the walk
\* what is available shrinks afterwards).  A release for a height that a deletion (an Init call) has taken away again is the
\* recorded observation of HeightSub.tla (OkAtWake): reported under OBS_, outside C12's quantifier (appends, cancellations,
\* other waiters — no deletions)
Clauses(e, ph, pr, avl) ==
  LET sto == SetOf(e.stored)
      newly(w, r) == e.res[w] = r /\ pr[w] # r IN
       If(e.height < ph /\ e.p # "I", "C17_Height_never_decreases")
  \cup If(\E w \in Waiters : newly(w, "ok") /\ e.wants[w] \notin sto /\ ~e.hasInit, "C12_returns_nil_only_once_the_height_is_available")
  \cup If(\E w \in Waiters : newly(w, "ok") /\ ~avl[w],
          IF e.hasInit THEN "OBS_released_although_its_height_was_never_available_to_it" ELSE "C12_returns_nil_only_once_the_height_is_available")
  \cup If(\E w \in Waiters : newly(w, "elapsed") /\ e.wants[w] > e.height, "C12_elapsed_only_at_or_below_Height")
  \cup If(e.a = "drain" /\ \E w \in Waiters : e.pcs[w] = "waiting" /\ (e.wants[w] \in sto \/ e.wants[w] <= e.height),
          "C12_wakes_once_the_header_is_stored")
  \cup If(\E w \in Waiters : e.cancelled[w] /\ e.pcs[w] = "waiting", "C12_cancelled_context_releases_caller")
  \cup If(\E w \in Waiters : e.res[w] \notin {"", "ok", "elapsed", "ctx"}, "C12_unexpected_error")

NoRes == [w \in Waiters |-> ""]
NoAv == [w \in Waiters |-> FALSE]
TInit == l = 1 /\ st = Init0 /\ bad = FALSE /\ prevH = 0 /\ prevRes = NoRes /\ avail = NoAv

TNext ==
  /\ l <= Len(Trace)
  /\ LET e     == Trace[l]
         fresh == e.i = 0
         s0    == IF fresh THEN Init0 ELSE st
         b0    == IF fresh THEN FALSE ELSE bad
         ph    == IF fresh THEN 0 ELSE prevH
         pr    == IF fresh THEN NoRes ELSE prevRes
         av0   == IF fresh THEN NoAv ELSE avail
         \* (computed from the recorded observations alone: started waiters whose height is among the stored ones now)
         av1   == [w \in Waiters |-> av0[w] \/ (e.wants[w] # 0 /\ e.wants[w] \in SetOf(e.stored))]
         F     == Clauses(e, ph, pr, av1)
         model == e.a \in {"call", "step", "cancel"}
         cands == IF model /\ ~b0 THEN {s \in Do(s0, e.p, e.a, e.x) : Matches(s, e)} ELSE {}
     IN /\ IF F = {} THEN TRUE ELSE PrintT(ToJson([k |-> "FAIL", l |-> l, tr |-> e.tr, i |-> e.i, preds |-> F, cfg |-> e.cfg]))
        /\ IF model /\ ~b0 /\ cands = {}
           THEN /\ PrintT(ToJson([k |-> "DRIFT", l |-> l, tr |-> e.tr, i |-> e.i, p |-> e.p, a |-> e.a, x |-> e.x, cfg |-> e.cfg]))
                /\ bad' = TRUE /\ st' = s0
           ELSE IF model /\ ~b0 THEN bad' = FALSE /\ st' \in cands
           ELSE bad' = b0 /\ st' = s0
        /\ prevH' = e.height /\ prevRes' = [w \in Waiters |-> e.res[w]] /\ avail' = av1
  /\ l' = l + 1

TSpec == TInit /\ [][TNext]_<<l, st, bad, prevH, prevRes, avail>>
Consumed == TLCGet("stats").diameter - 1 = Len(Trace)
=============================================================================
