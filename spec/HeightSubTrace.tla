--------------------------- MODULE HeightSubTrace ---------------------------
(***************************************************************************)
(* Trace validation of the real store.heightSub against HeightSub.tla.     *)
(*                                                                         *)
(* harness/conch (TestHeightSub) drives a bare heightSub through seeded    *)
(* walks over its own schedule space: up to three concurrent SetHeight     *)
(* callers, Notify calls, up to four WaitUnless callers, cancellations;    *)
(* every verif yield point parks its goroutine, one parked goroutine or    *)
(* one new call is released per step.  After each step it records the      *)
(* event (process, action, argument) and what the code shows: Height(),    *)
(* where every goroutine is parked, what every finished waiter returned.   *)
(*                                                                         *)
(* Validation: the event is applied to the model state with the SAME       *)
(* function Do that TLC model-checks in HeightSub.tla; a successor must    *)
(* exist whose height, program counters and waiter results equal the       *)
(* recorded ones (the one nondeterministic place, a select with both cases *)
(* ready, is resolved by the recorded result).  A step the model cannot    *)
(* explain is reported as k = "DRIFT" (the rest of that trace is then only *)
(* judged by the clauses).  The property clauses are evaluated on the      *)
(* recorded observations alone and reported as k = "FAIL".                 *)
(***************************************************************************)
EXTENDS HeightSub, Json, IOUtils

Trace == ndJsonDeserialize(IOEnv.TRACE)
VARIABLES l, bad, prevH
SetOf(s) == {s[i] : i \in DOMAIN s}
If(c, name) == IF c THEN {name} ELSE {}

Matches(s, e) == /\ s.height = e.height
                 /\ \A q \in Setters : s.spc[q] = e.pcs[q]
                 /\ \A w \in Waiters : s.wpc[w] = e.pcs[w] /\ s.wres[w] = e.res[w]

\* clauses over the recorded observation (no model state involved)
Clauses(e, ph) ==
  LET sto == SetOf(e.stored) IN
       If(e.height < ph, "C17_Height_never_decreases")
  \cup If(\E w \in Waiters : e.res[w] = "ok" /\ e.wants[w] \notin sto, "C12_returns_nil_only_once_the_height_is_available")
  \cup If(\E w \in Waiters : e.res[w] = "elapsed" /\ e.wants[w] > e.height, "C12_elapsed_only_at_or_below_Height")
  \cup If(e.a = "drain" /\ \E w \in Waiters : e.pcs[w] = "waiting" /\ (e.wants[w] \in sto \/ e.wants[w] <= e.height),
          "C12_wakes_once_the_header_is_stored")
  \cup If(\E w \in Waiters : e.cancelled[w] /\ e.pcs[w] = "waiting", "C12_cancelled_context_releases_caller")
  \cup If(\E w \in Waiters : e.res[w] \notin {"", "ok", "elapsed", "ctx"}, "C12_unexpected_error")

TInit == l = 1 /\ st = Init0 /\ bad = FALSE /\ prevH = 0

TNext ==
  /\ l <= Len(Trace)
  /\ LET e     == Trace[l]
         fresh == e.i = 0
         s0    == IF fresh THEN Init0 ELSE st
         b0    == IF fresh THEN FALSE ELSE bad
         ph    == IF fresh THEN 0 ELSE prevH
         F     == Clauses(e, ph)
         model == e.a \in {"call", "step", "cancel"}
         cands == IF model /\ ~b0 THEN {s \in Do(s0, e.p, e.a, e.x) : Matches(s, e)} ELSE {}
     IN /\ IF F = {} THEN TRUE ELSE PrintT(ToJson([k |-> "FAIL", l |-> l, tr |-> e.tr, i |-> e.i, preds |-> F, cfg |-> e.cfg]))
        /\ IF model /\ ~b0 /\ cands = {}
           THEN /\ PrintT(ToJson([k |-> "DRIFT", l |-> l, tr |-> e.tr, i |-> e.i, p |-> e.p, a |-> e.a, x |-> e.x, cfg |-> e.cfg]))
                /\ bad' = TRUE /\ st' = s0
           ELSE IF model /\ ~b0 THEN bad' = FALSE /\ st' \in cands
           ELSE bad' = b0 /\ st' = s0
        /\ prevH' = e.height
  /\ l' = l + 1

TSpec == TInit /\ [][TNext]_<<l, st, bad, prevH>>
Consumed == TLCGet("stats").diameter - 1 = Len(Trace)
=============================================================================
