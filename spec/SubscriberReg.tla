--------------------------- MODULE SubscriberReg ---------------------------
(***************************************************************************)
(* p2p.Subscriber: registration of the verifier while validators wait.     *)
(* verifyMessage parks on verifierSema until SetVerifier has been called   *)
(* and then consults the field `verifier` without taking the mutex; what   *)
(* makes that read safe is the order of SetVerifier's two steps: the field *)
(* is written (RegWrite) before the semaphore is closed (RegClose).        *)
(* C11 needs it: a message that waited for the verifier is judged by the   *)
(* registered verifier (accepted when that returns nil) — a validator that *)
(* consults the field before it is published calls a nil func, the panic   *)
(* is contained, and a valid header is rejected and its sender penalised.  *)
(*                                                                         *)
(* Order = "write_close" is the code's order; Order = "close_write" is the *)
(* design error (checked by the second configuration as a self-test: TLC   *)
(* must refute ConsultsRegistered there).                                  *)
(***************************************************************************)
EXTENDS Naturals, FiniteSets, TLC

CONSTANTS Waiters, Order

VARIABLES field,   \* "nil" | "v" : the verifier field
          sema,    \* "open" | "closed"
          reg,     \* pc of the SetVerifier call: "idle" | "locked" | "one" | "done"
          pc,      \* waiter -> "arriving" | "parked" | "woken" | "done"
          saw      \* waiter -> what it consulted: "-" | "nil" | "v"
vars == <<field, sema, reg, pc, saw>>

Init == /\ field = "nil" /\ sema = "open" /\ reg = "idle"
        /\ pc = [w \in Waiters |-> "arriving"] /\ saw = [w \in Waiters |-> "-"]

\* a validator reaches the select on verifierSema
Arrive(w) == /\ pc[w] = "arriving"
             /\ pc' = [pc EXCEPT ![w] = IF sema = "closed" THEN "woken" ELSE "parked"]
             /\ UNCHANGED <<field, sema, reg, saw>>
\* close(verifierSema) readies every parked validator
Wake(w) == /\ pc[w] = "parked" /\ sema = "closed"
           /\ pc' = [pc EXCEPT ![w] = "woken"]
           /\ UNCHANGED <<field, sema, reg, saw>>
\* s.verifier(ctx, hdr): the read of the field, outside the mutex
Consult(w) == /\ pc[w] = "woken"
              /\ saw' = [saw EXCEPT ![w] = field]
              /\ pc' = [pc EXCEPT ![w] = "done"]
              /\ UNCHANGED <<field, sema, reg>>

RegLock == reg = "idle" /\ reg' = "locked" /\ UNCHANGED <<field, sema, pc, saw>>
RegWrite == /\ \/ (Order = "write_close" /\ reg = "locked")
               \/ (Order = "close_write" /\ reg = "one")
            /\ field' = "v"
            /\ reg' = IF reg = "locked" THEN "one" ELSE "done"
            /\ UNCHANGED <<sema, pc, saw>>
RegClose == /\ \/ (Order = "write_close" /\ reg = "one")
               \/ (Order = "close_write" /\ reg = "locked")
            /\ sema' = "closed"
            /\ reg' = IF reg = "locked" THEN "one" ELSE "done"
            /\ UNCHANGED <<field, pc, saw>>

Next == \/ RegLock \/ RegWrite \/ RegClose
        \/ \E w \in Waiters : Arrive(w) \/ Wake(w) \/ Consult(w)
Spec == Init /\ [][Next]_vars /\ WF_vars(Next)

TypeOK == /\ field \in {"nil", "v"} /\ sema \in {"open", "closed"} /\ reg \in {"idle", "locked", "one", "done"}
          /\ pc \in [Waiters -> {"arriving", "parked", "woken", "done"}] /\ saw \in [Waiters -> {"-", "nil", "v"}]
\* every validator consults the registered verifier, never the unset field
ConsultsRegistered == \A w \in Waiters : saw[w] # "nil"
\* what makes it so: the semaphore is closed only after the field is published
PublishedBeforeRelease == sema = "closed" => field = "v"
\* nobody stays parked once the verifier is registered
AllJudged == <>(\A w \in Waiters : pc[w] = "done")
=============================================================================
