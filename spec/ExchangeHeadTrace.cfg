CONSTANTS MaxPeers = 1
 MaxTrustedPeers = 1
INIT TInit
NEXT TNext
CHECK_DEADLOCK FALSE
POSTCONDITION Consumed
