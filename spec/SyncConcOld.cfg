SPECIFICATION Spec
CONSTANTS
  N = 5
  MaxG = 2
  MaxH = 2
  MaxReq = 2
  ReadOrder = "pend_store"
  Fix = "none"
INVARIANTS TypeOK SubjectiveCoversStoreAtRest
CHECK_DEADLOCK FALSE
