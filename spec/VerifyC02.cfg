CONSTANT MaxLen = 3
INIT InitC02
NEXT Next
INVARIANTS PredictedAllowed02 IsPrefix02 PrefixVerified FirstFailingOut NilIffWhole EmptyIsError LaterGapRefused Export
CHECK_DEADLOCK FALSE
