--------------------------- MODULE ServerConcTrace ---------------------------
(* C10 property layer over (request, scripted store mutation, observed response, observed store spans) records written
   by harness/p2ph TestServerConc: the store changes between two store calls of one request. *)
EXTENDS ServerConc, IOUtils

Trace == ndJsonDeserialize(IOEnv.TRACE)
VARIABLE l
If(c, name) == IF c THEN {name} ELSE {}

Clauses(rec) ==
  LET i == rec.in
      r == rec.obs
  IN   If(rec.hung, "C10_does_not_hang_beyond_timeouts")
  \cup If(r.status \notin {"ok", "notfound", "reset", "hung"}, "C10_reply_is_ok_notfound_or_reset_with_true_store_data")
  \cup If(r.status # "ok" /\ Len(r.heights) # 0, "C10_reply_is_ok_notfound_or_reset_with_true_store_data")
  \cup If(r.status = "ok" /\ ~ExactPrefixConc(i, r.heights), "C10_ok_is_exactly_origin_origin_plus_1_in_order")
  \cup If(~BoundedWork(i, r.spans), "C10_reads_no_more_than_the_requested_heights")
  \cup If(Len(r.heights) > MaxReq, "C10_never_more_than_MaxRangeRequestSize_headers")
  \cup If(~rec.fired /\ i.m # "none", "HARNESS_mutation_not_applied")

TInit == l = 1 /\ in = [kind |-> ""] /\ phase = "trace" /\ out = Resp("", <<>>, <<>>, {})
TNext ==
  /\ l <= Len(Trace)
  /\ LET F == Clauses(Trace[l]) IN
       IF F = {} THEN TRUE ELSE PrintT(ToJson([k |-> "FAIL", l |-> l, tr |-> Trace[l].tr, preds |-> F]))
  /\ l' = l + 1
  /\ UNCHANGED vars
Consumed == TLCGet("stats").diameter - 1 = Len(Trace)
=============================================================================
