CONSTANT MaxPeers = 1
INIT TInit
NEXT TNext
CHECK_DEADLOCK FALSE
POSTCONDITION Consumed
