----------------------------- MODULE StoreConc -----------------------------
(***************************************************************************)
(* Store.GetByHeight / heightSub.Wait against the flush goroutine          *)
(* (store/store.go: GetByHeight, flushLoop.flush, advanceHead;             *)
(*  store/heightsub.go: Wait, Notify, SetHeight) — C12, and the head /     *)
(* height observations of C17.                                             *)
(*                                                                         *)
(* Granularity = the code segments between two verif yield points          *)
(* (MANIFEST hooks): gbh.afterLookup, wait.afterCheck, wait.subscribed,    *)
(* flush.pendingAppended, flush.notified, setHeight.afterCAS,              *)
(* flush.headAdvanced.  Every step of                                      *)
(* this module is therefore replayable on the real Store by the gate       *)
(* scheduler (harness/conch).  A reader released by a notification runs    *)
(* its second lookup inside the notifier's step (it is not gated).         *)
(***************************************************************************)
EXTENDS Naturals, Sequences, FiniteSets, TLC, Json

CONSTANTS N,          \* heights 1..N; the store starts as {1} with Head = Height = 1
          Readers,    \* reader ids (1..k)
          Wants,      \* set of heights a reader may ask for
          Scripts,    \* set of batch sequences that the appenders submit, e.g. << <<3>>, <<2,4>> >>
          Cancels,    \* TRUE: reader contexts may be cancelled
          Known       \* recorded defects (known_findings.json)

VARIABLES stored, head, hs, subs, q, wpc, cur, hsOld, script, sent,
          pc, want, res, cancelled, lost, hist

vars == <<stored, head, hs, subs, q, wpc, cur, hsOld, script, sent, pc, want, res, cancelled, lost, hist>>
view == <<stored, head, hs, subs, q, wpc, cur, hsOld, script, sent, pc, want, res, cancelled, lost>>

Range(s) == {s[i] : i \in DOMAIN s}
RECURSIVE Up(_, _)
Up(st, h) == IF (h + 1) \in st THEN Up(st, h + 1) ELSE h

Lookup(st, h) == IF h \in st THEN "ok" ELSE "notfound"

Init ==
  /\ stored = {1} /\ head = 1 /\ hs = 1 /\ subs = {} /\ q = <<>> /\ wpc = "idle" /\ cur = {} /\ hsOld = 0
  /\ script \in Scripts /\ sent = 0
  /\ want \in [Readers -> Wants]
  /\ pc = [r \in Readers |-> "init"] /\ res = [r \in Readers |-> "none"]
  /\ cancelled = [r \in Readers |-> FALSE] /\ lost = [r \in Readers |-> FALSE]
  /\ hist = <<>>

\* Log is the last conjunct of every action: it snapshots the successor state for step-by-step comparison
Log(p, id, a) == hist' = Append(hist, [p |-> p, id |-> id, a |-> a,
                                      pc |-> pc', res |-> res', hs |-> hs', head |-> head', wpc |-> wpc'])

\* readers woken by a notification for the heights in hsset: second lookup, done
\* (a reader that is still at the gate before its post-subscription lookup only loses its subscription)
Woken(hsset) == {r \in subs : want[r] \in hsset}
WakeUpd(hsset, st) ==
  /\ subs' = subs \ Woken(hsset)
  /\ pc' = [r \in Readers |-> IF r \in Woken(hsset) /\ pc[r] = "parked" THEN "done" ELSE pc[r]]
  /\ res' = [r \in Readers |-> IF r \in Woken(hsset) /\ pc[r] = "parked" THEN Lookup(st, want[r]) ELSE res[r]]

-----------------------------------------------------------------------------
(* Reader: GetByHeight(ctx, want[r]) *)

RStart(r) ==      \* first lookup
  /\ pc[r] = "init"
  /\ IF want[r] \in stored
     THEN pc' = [pc EXCEPT ![r] = "done"] /\ res' = [res EXCEPT ![r] = "ok"]
     ELSE pc' = [pc EXCEPT ![r] = "afterLookup"] /\ UNCHANGED res
  /\ UNCHANGED <<stored, head, hs, subs, q, wpc, cur, hsOld, script, sent, want, cancelled, lost>>
  /\ Log("R", r, "start")

RCheck(r) ==      \* heightSub.Wait: lock-free check
  /\ pc[r] = "afterLookup"
  /\ IF hs >= want[r]
     THEN pc' = [pc EXCEPT ![r] = "done"] /\ res' = [res EXCEPT ![r] = Lookup(stored, want[r])]
     ELSE pc' = [pc EXCEPT ![r] = "afterCheck"] /\ UNCHANGED res
  /\ UNCHANGED <<stored, head, hs, subs, q, wpc, cur, hsOld, script, sent, want, cancelled, lost>>
  /\ Log("R", r, "check")

RLock(r) ==       \* heightSub.Wait: re-check under the lock, register, select
  /\ pc[r] = "afterCheck"
  /\ IF hs >= want[r]
     THEN /\ pc' = [pc EXCEPT ![r] = "done"] /\ res' = [res EXCEPT ![r] = Lookup(stored, want[r])]
          /\ UNCHANGED <<subs, lost>>
     ELSE /\ pc' = [pc EXCEPT ![r] = "subscribed"] /\ subs' = subs \cup {r} /\ UNCHANGED res
          /\ lost' = [lost EXCEPT ![r] = want[r] \in stored]   \* subscribed after the only notification (finding D11, repaired)
  /\ UNCHANGED <<stored, head, hs, q, wpc, cur, hsOld, script, sent, want, cancelled>>
  /\ Log("R", r, "lock")

RPresent(r) ==    \* heightSub.WaitUnless: the lookup made once the subscription is in place, then the select
  /\ pc[r] = "subscribed"
  /\ IF want[r] \in stored
     THEN pc' = [pc EXCEPT ![r] = "done"] /\ res' = [res EXCEPT ![r] = "ok"] /\ subs' = subs \ {r}
     ELSE IF cancelled[r]
     THEN pc' = [pc EXCEPT ![r] = "done"] /\ res' = [res EXCEPT ![r] = "ctx"] /\ subs' = subs \ {r}
     ELSE pc' = [pc EXCEPT ![r] = "parked"] /\ UNCHANGED <<res, subs>>
  /\ UNCHANGED <<stored, head, hs, q, wpc, cur, hsOld, script, sent, want, cancelled, lost>>
  /\ Log("R", r, "present")

Cancel(r) ==
  /\ Cancels /\ ~cancelled[r] /\ pc[r] # "done" /\ pc[r] # "init"
  /\ cancelled' = [cancelled EXCEPT ![r] = TRUE]
  /\ IF pc[r] = "parked"
     THEN pc' = [pc EXCEPT ![r] = "done"] /\ res' = [res EXCEPT ![r] = "ctx"] /\ subs' = subs \ {r}
     ELSE UNCHANGED <<pc, res, subs>>
  /\ UNCHANGED <<stored, head, hs, q, wpc, cur, hsOld, script, sent, want, lost>>
  /\ Log("C", r, "cancel")

-----------------------------------------------------------------------------
(* Appenders + flush goroutine *)

Enqueue ==        \* a client calls Append with the next batch of the script
  /\ sent < Len(script)
  /\ sent' = sent + 1
  /\ LET b == Range(script[sent + 1]) IN
     IF wpc = "idle"
     THEN /\ cur' = b /\ stored' = stored \cup b /\ wpc' = "appended" /\ UNCHANGED q   \* ensureInit, pending.Append
     ELSE /\ q' = Append(q, b) /\ UNCHANGED <<cur, stored, wpc>>
  /\ UNCHANGED <<head, hs, subs, hsOld, script, pc, want, res, cancelled, lost>>
  /\ Log("A", sent + 1, "append")

WNotify ==        \* heightSub.Notify(heights of the batch)
  /\ wpc = "appended"
  /\ WakeUpd(cur, stored)
  /\ wpc' = "notified"
  /\ UNCHANGED <<stored, head, hs, q, cur, hsOld, script, sent, want, cancelled, lost>>
  /\ Log("W", 0, "notify")

WAdvance ==       \* advanceHead: nextHead, contiguousHead.Store, SetHeight up to the CAS
  /\ wpc = "notified"
  /\ LET nh == Up(stored, head) IN
     IF nh # head /\ hs < nh
     THEN head' = nh /\ hsOld' = hs /\ hs' = nh /\ wpc' = "cas"
     ELSE head' = nh /\ UNCHANGED <<hs, hsOld>> /\ wpc' = "advanced"
  /\ UNCHANGED <<stored, subs, q, cur, script, sent, pc, want, res, cancelled, lost>>
  /\ Log("W", 0, "advance")

WRange ==         \* SetHeight: notify every height from the old to the new one under the lock
  /\ wpc = "cas"
  /\ WakeUpd(hsOld..hs, stored)
  /\ wpc' = "advanced"
  /\ UNCHANGED <<stored, head, hs, q, cur, hsOld, script, sent, want, cancelled, lost>>
  /\ Log("W", 0, "range")

WFinish ==        \* recedeTail, commit, pending.Reset; then the next queued batch is taken at once
  /\ wpc = "advanced"
  /\ IF q = <<>>
     THEN wpc' = "idle" /\ cur' = {} /\ UNCHANGED <<q, stored>>
     ELSE wpc' = "appended" /\ cur' = Head(q) /\ q' = Tail(q) /\ stored' = stored \cup Head(q)
  /\ UNCHANGED <<head, hs, subs, hsOld, script, sent, pc, want, res, cancelled, lost>>
  /\ Log("W", 0, "finish")

Next ==
  \/ \E r \in Readers : RStart(r) \/ RCheck(r) \/ RLock(r) \/ RPresent(r) \/ Cancel(r)
  \/ Enqueue \/ WNotify \/ WAdvance \/ WRange \/ WFinish

Fair == /\ WF_vars(Enqueue) /\ WF_vars(WNotify) /\ WF_vars(WAdvance) /\ WF_vars(WRange) /\ WF_vars(WFinish)
        /\ \A r \in Readers : WF_vars(RStart(r)) /\ WF_vars(RCheck(r)) /\ WF_vars(RLock(r)) /\ WF_vars(RPresent(r))
Spec == Init /\ [][Next]_vars /\ Fair

-----------------------------------------------------------------------------
(* Property layer — C12 *)
WriterQuiet == wpc = "idle" /\ q = <<>>

\* a parked reader's header is not in the store once the writer is idle
NoLostWakeup ==
  WriterQuiet => \A r \in Readers : pc[r] = "parked" => (want[r] \notin stored \/ (lost[r] /\ "KF-C12-lostwake" \in Known))
\* a header is returned only if it is stored; ErrNotFound never for these waiters (store is contiguous below Height)
FoundIsRight    == \A r \in Readers : res[r] = "ok" => want[r] \in stored
NeverNotFound   == \A r \in Readers : res[r] # "notfound"
CtxOnlyIfCancel == \A r \in Readers : res[r] = "ctx" => cancelled[r]
HeightIsHead    == wpc \in {"idle", "appended", "notified", "advanced"} => hs = head
HeadContiguous  == \A h \in 1..head : h \in stored

\* C17 flavour: Head and Height never decrease
HeadMonotone == [][head' >= head /\ hs' >= hs]_vars

\* liveness: once the header is stored (or the context cancelled) the reader returns
EventuallyReturns ==
  \A r \in Readers : [](((want[r] \in stored /\ pc[r] # "init") \/ cancelled[r]) => <>(pc[r] = "done" \/ (lost[r] /\ "KF-C12-lostwake" \in Known)))

-----------------------------------------------------------------------------
ExportEdge ==
  IF Len(hist) > 0
  THEN PrintT(ToJson([k |-> "CONC", want |-> want, script |-> script, hist |-> hist,
                      st |-> [stored |-> stored, head |-> head, hs |-> hs, subs |-> subs, wpc |-> wpc, pc |-> pc, res |-> res, lost |-> lost]]))
  ELSE TRUE
=============================================================================
