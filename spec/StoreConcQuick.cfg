CONSTANTS N = 4
 Readers <- MCReaders2
 Wants <- MCWantsQ
 Scripts <- MCScriptsQuick
 Cancels = TRUE
 Known = {}
SPECIFICATION Spec
VIEW view
INVARIANTS NoLostWakeup FoundIsRight NeverNotFound CtxOnlyIfCancel HeightIsHead HeadContiguous
PROPERTIES HeadMonotone
CHECK_DEADLOCK FALSE
