------------------------------- MODULE Server -------------------------------
(***************************************************************************)
(* p2p.ExchangeServer (p2p/server.go: requestHandler, handleRangeRequest,  *)
(* handleRequestByHash, handleHeadRequest) as a decision table — C10.      *)
(*                                                                         *)
(* uint64 arithmetic is modelled modulo M = 1024; the harness maps a value *)
(* v >= M/2 to 2^64 - (M - v), which preserves +, - and comparisons for    *)
(* the values used here (small values stay below M/2).                     *)
(***************************************************************************)
EXTENDS Naturals, Sequences, FiniteSets, TLC, Json

M == 1024
MaxReq == 64                       \* header.MaxRangeRequestSize
Add(a, b) == (a + b) % M

VARIABLES in, phase, out
vars == <<in, phase, out>>

Tails == {1, 5}
HeadsOf(t) == {t, t + 3, t + 70}
OriginsOf(t, h) == {0, t - 1, t, t + 1, h - 1, h, h + 1, h + 2, M - 1, M - 2} \cap (0..(M - 1))
Amounts == {0, 1, 2, 63, 64, 65, M - 2, M - 1}
HashKinds == {"known", "unknown", "empty", "short"}
Garbage == {"none", "truncated", "random", "oversize", "emptydata"}

Inputs ==
       {[kind |-> "range", tail |-> t, head |-> h, origin |-> o, amount |-> a, hk |-> "", g |-> ""] :
            t \in Tails, h \in UNION {HeadsOf(t2) : t2 \in Tails}, o \in 0..(M - 1), a \in Amounts}
Valid(i) ==
  \/ i.kind = "range" /\ i.head \in HeadsOf(i.tail) /\ i.origin \in OriginsOf(i.tail, i.head)
  \/ i.kind # "range"

AllInputs ==
  {i \in Inputs : Valid(i)}
  \cup {[kind |-> "hash", tail |-> t, head |-> t + 3, origin |-> 0, amount |-> 1, hk |-> k, g |-> ""] : t \in Tails, k \in HashKinds}
  \cup {[kind |-> "garbage", tail |-> 1, head |-> 4, origin |-> 0, amount |-> 0, hk |-> "", g |-> g] : g \in Garbage}

Resp(status, hs, spans) == [status |-> status, heights |-> hs, spans |-> spans]
Hts(a, b) == [i \in 1..(b - a) |-> a + i - 1]        \* heights a..b-1

\* implementation layer: the handlers in code order
PredictedRange(i) ==
  LET from == i.origin
      to   == Add(i.origin, i.amount)
      T == i.tail
      H == i.head
      HasAt(x) == x # 0 /\ x >= T /\ x <= H
  IN
  IF from >= to THEN Resp("reset", <<>>, <<>>)                       \* ErrRangeMixUp (amount 0, wrap-around)
  ELSE IF from = 0 THEN Resp("ok", <<H>>, <<>>)                       \* head request
  ELSE IF to - from > MaxReq THEN Resp("reset", <<>>, <<>>)           \* ErrHeadersLimitExceeded
  ELSE IF ~HasAt(to - 1)
       THEN IF H < from THEN Resp("notfound", <<>>, <<>>)
            ELSE IF H >= to - 1 THEN Resp("notfound", <<>>, <<>>)     \* the end of the range is pruned (below Tail)
            ELSE \* partial range up to the head
                 IF from < T THEN Resp("notfound", <<>>, << <<from, H + 1>> >>)
                 ELSE Resp("ok", Hts(from, H + 1), << <<from, H + 1>> >>)
  ELSE IF from < T THEN Resp("notfound", <<>>, << <<from, to>> >>)    \* GetRange runs into the pruned part
  ELSE Resp("ok", Hts(from, to), << <<from, to>> >>)

Predicted(i) ==
  CASE i.kind = "range" -> PredictedRange(i)
    [] i.kind = "hash"  -> IF i.hk = "known" THEN Resp("ok", <<i.tail + 1>>, <<>>) ELSE Resp("notfound", <<>>, <<>>)
    [] OTHER            -> Resp("reset", <<>>, <<>>)

\* property layer
ExactPrefix(i, hs) ==       \* origin, origin+1, ... ; shorter than amount only when the range passes the head
  LET k == Len(hs) IN
  /\ k >= 1
  /\ \A j \in 1..k : hs[j] = i.origin + j - 1 /\ hs[j] >= i.tail /\ hs[j] <= i.head
  /\ (k = i.amount \/ (k < i.amount /\ i.origin + k - 1 = i.head))

BoundedWork(i, spans) ==
  \A j \in DOMAIN spans :
     /\ spans[j][2] - spans[j][1] <= MaxReq
     /\ spans[j][1] >= i.origin /\ spans[j][2] <= i.origin + i.amount

AllowedResp(i, r) ==
  /\ r.status \in {"ok", "notfound", "reset"}
  /\ (r.status # "ok" => r.heights = <<>>)
  /\ CASE i.kind = "range" /\ i.origin = 0 /\ i.amount # 0 -> r.status = "ok" /\ r.heights = <<i.head>>   \* a head request: origin 0, whatever the amount
       [] i.kind = "range" /\ i.origin = 0 -> (r.status = "ok" => r.heights = <<i.head>>) /\ r.spans = <<>>
       [] i.kind = "range" -> (r.status = "ok" => ExactPrefix(i, r.heights)) /\ BoundedWork(i, r.spans)
       [] i.kind = "hash"  -> (i.hk = "known" => r.status = "ok" /\ r.heights = <<i.tail + 1>>) /\ (i.hk # "known" => r.status # "ok")
       [] OTHER -> r.status # "ok"

Init == in \in AllInputs /\ phase = "in" /\ out = Resp("", <<>>, <<>>)
Next == phase = "in" /\ phase' = "out" /\ out' = Predicted(in) /\ UNCHANGED in

PredictedAllowed == phase = "out" => AllowedResp(in, out)
NeverMoreThanMax == phase = "out" => Len(out.heights) <= MaxReq
Export == phase = "out" => PrintT(ToJson([k |-> "C10", in |-> in, predicted |-> out]))
=============================================================================
