--------------------------- MODULE SyncerTailTrace ---------------------------
(* C16 property layer over Start()/Head() runs of the real Syncer for every row of SyncerTail.tla. *)
EXTENDS SyncerTail, IOUtils
Trace == ndJsonDeserialize(IOEnv.TRACE)
VARIABLE l
If(c, name) == IF c THEN {name} ELSE {}
SetOf(s) == {s[k] : k \in DOMAIN s}
Clauses(rec) ==
  LET i == rec.in
      o == rec.obs
  IN   If(o.kind = "panic", "C16_computation_never_panics")
  \cup If(o.wrapped, "C16_computation_never_wraps_around")
  \cup If(StartExists(i) /\ o.kind = "error", "C16_Head_and_Start_not_wedged_for_accepted_parameters")
  \cup If(StartExists(i) /\ o.kind = "ok" /\ o.headErr, "C16_Head_and_Start_not_wedged_for_accepted_parameters")
  \cup If(o.kind = "ok" /\ ~(o.tail >= 1 /\ o.tail <= o.head /\ o.gapFree), "C16_store_is_one_gap_free_chain_with_1_le_Tail_le_Head")
  \cup If(o.kind = "ok" /\ Len(o.orphans) # 0, "C16_store_is_one_gap_free_chain_with_1_le_Tail_le_Head")
  \cup If(o.kind = "ok" /\ i.tail # 0 /\ i.sfh = 0 /\ Spaced(i) /\
          \E h \in SetOf(o.lost) : TimeOf(i.pat, h) > TimeOf(i.pat, i.nhead) - i.w,
          "C16_no_header_younger_than_the_pruning_window_deleted")
  \cup If(o.kind = "ok" /\ (Len(o.orphans) # 0 \/ ~o.gapFree \/ o.tail > o.head \/ o.tail < 1), "C03_store_stays_one_gap_free_run_Tail_Head")
  \cup If(o.knownRes = "nil", "C16_known_header_is_refused")
  \cup If(o.knownRes # "" /\ (o.knownTail # o.tail \/ Len(o.knownLost) # 0), "C16_refused_header_does_not_move_the_tail")
TInit == l = 1 /\ in = [bt |-> 0] /\ phase = "trace" /\ out = Res("", 0)
TNext == /\ l <= Len(Trace)
         /\ LET F == Clauses(Trace[l]) IN IF F = {} THEN TRUE ELSE PrintT(ToJson([k |-> "FAIL", l |-> l, tr |-> Trace[l].tr, preds |-> F]))
         /\ l' = l + 1 /\ UNCHANGED vars
Consumed == TLCGet("stats").diameter - 1 = Len(Trace)
=============================================================================
