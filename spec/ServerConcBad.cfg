CONSTANT Variant = "hasAtFrom"
INIT Init
NEXT Next
INVARIANTS PredictedAllowed
CHECK_DEADLOCK FALSE
