--------------------------- MODULE ExchangeGetTrace ---------------------------
(* C13 property layer over observed results of the real Exchange with scripted trusted peers. *)
EXTENDS ExchangeGet, IOUtils
Trace == ndJsonDeserialize(IOEnv.TRACE)
VARIABLE l
If(c, name) == IF c THEN {name} ELSE {}
Clauses(rec) ==
  LET i == rec.in
      r == rec.obs
      f == First(i, 1)
  IN   If(rec.panicked, "C13_no_response_can_crash_the_client")
  \cup If(~r.err /\ r.hdr = "zero", "C13_never_zero_header_with_nil_error")
  \cup If(~r.err /\ r.hdr \notin {"wanted", "other", "zero"}, "C13_only_decoded_validated_right_chain_headers")
  \cup If(i.op = "Get" /\ ~r.err /\ r.hdr # "wanted", "C13_Get_returns_header_with_requested_hash")
  \cup If(f = 0 /\ ~r.err, "C13_error_when_no_trusted_peer_answers_validly")
  \cup If(~r.err /\ r.hdr \in {"wanted", "other"} /\ f # 0 /\ r.hdr # Carries(i.ans[f]), "C13_taken_from_first_peer_that_answers_validly")
  \cup If(f # 0 /\ (i.op = "GetByHeight" \/ Carries(i.ans[f]) = "wanted") /\ r.err, "C13_succeeds_when_a_trusted_peer_answers_validly")
  \cup If(rec.hung, "C13_does_not_hang")
TInit == l = 1 /\ in = [op |-> ""] /\ phase = "trace" /\ out = Res("", FALSE)
TNext == /\ l <= Len(Trace)
         /\ LET F == Clauses(Trace[l]) IN IF F = {} THEN TRUE ELSE PrintT(ToJson([k |-> "FAIL", l |-> l, tr |-> Trace[l].tr, preds |-> F]))
         /\ l' = l + 1 /\ UNCHANGED vars
Consumed == TLCGet("stats").diameter - 1 = Len(Trace)
=============================================================================
