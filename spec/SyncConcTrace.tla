--------------------------- MODULE SyncConcTrace ---------------------------
(* Property layer over replays of SyncConc.tla behaviours on the real Syncer (harness/synch TestStalePending):       *)
(* a Head() caller parked before pending.Add while gossip stores its header, then a sibling of a stored header.      *)
EXTENDS Naturals, Sequences, TLC, Json, IOUtils
Trace == ndJsonDeserialize(IOEnv.TRACE)
VARIABLE l
If(c, name) == IF c THEN {name} ELSE {}
NonDecreasing(s) == \A i \in 1..(Len(s) - 1) : s[i] = 0 \/ s[i + 1] = 0 \/ s[i] <= s[i + 1]
WaitClauses(r) ==
       If(r.stateBlocked, "C07_State_reports_the_error_of_an_aborted_attempt")
  \cup If(~r.stateBlocked /\ ~r.stateErrSeen, "C07_State_reports_the_error_of_an_aborted_attempt")
  \cup If(~r.headReached, "C07_next_learned_head_resumes_from_the_store_head_and_completes")
  \cup If(~r.waitReturned, "C07_SyncWait_returns")
TimeoutClauses(r) ==
       If(r.second # r.want, "C07_head_request_that_timed_out_only_delays_learning_the_head")
  \cup If(r.second # r.want, "C19_stale_head_triggers_a_head_request_after_an_earlier_one_timed_out")
  \cup If(r.calls2 # 1, "C19_stale_head_triggers_exactly_one_request_verified_against_it")
Clauses(r) ==
  IF r.op = "syncWaitFailure" THEN WaitClauses(r) ELSE
  IF r.op = "headTimeout" THEN TimeoutClauses(r) ELSE
       If(r.op = "stalePending" /\ r.via = "gossip" /\ r.siblingH <= r.storeHead /\ r.siblingRes = "nil",
          "C03_header_of_an_already_stored_height_is_refused_with_an_error")
  \cup If(r.sibStored, "C03_refused_header_never_stored")
  \cup If(r.nonCanon # 0, "C03_store_holds_only_verified_chain_headers")
  \cup If(~NonDecreasing(r.headRets \o <<r.finalHead>>), "C19_returned_heights_never_decrease")
  \cup If(~r.parked, "IMPL_schedule_reached_its_yield_point")
Init == l = 1
Next == /\ l <= Len(Trace)
        /\ LET F == Clauses(Trace[l]) IN IF F = {} THEN TRUE ELSE PrintT(ToJson([k |-> "FAIL", l |-> l, tr |-> Trace[l].tr, preds |-> F]))
        /\ l' = l + 1
Spec == Init /\ [][Next]_l
Consumed == TLCGet("stats").diameter - 1 = Len(Trace)
=============================================================================
