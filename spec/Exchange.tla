------------------------------ MODULE Exchange ------------------------------
(***************************************************************************)
(* One Exchange.GetRangeByHeight(from, to) call: p2p/exchange.go           *)
(* (GetRangeByHeight), p2p/session.go (getRangeByHeight,                   *)
(* handleOutgoingRequests, doRequest, processResponses, verify,            *)
(* prepareRequests), p2p/peer_stats.go (peerQueue) — C05 and C18.          *)
(*                                                                         *)
(* Heights are naturals; the trusted header `from` has height From and the *)
(* wanted range is From+1 .. From+Amount.  A peer answers a sub-request    *)
(* with a behaviour from a catalogue; which peer serves which sub-request  *)
(* is the peer queue's choice and is left nondeterministic.                *)
(***************************************************************************)
EXTENDS Naturals, Sequences, FiniteSets, TLC

CONSTANTS From,        \* height of the trusted header
          Amount,      \* number of wanted headers (to = From + Amount + 1)
          Chunk,       \* MaxHeadersPerRangeRequest
          Peers,       \* peer ids
          Catalogue,   \* behaviours a non-capable peer may show
          Capable,     \* peers that always answer in full (subset of Peers)
          MaxFaults    \* bound on the number of faulty answers (keeps the model finite)

VARIABLES reqQ,        \* sub-requests waiting for a peer: set of [o |-> origin, a |-> amount]
          peerQ,       \* peers available in the session's queue
          inflight,    \* set of [p |-> peer, o |-> origin, a |-> amount]
          got,         \* multiset of received heights as a sequence (duplicates visible)
          blocked,     \* peers blocked for misbehaviour
          faults,      \* faulty answers so far
          status,      \* "none" | "err" | "ok"
          result       \* heights returned to the caller when status = "ok"

vars == <<reqQ, peerQ, inflight, got, blocked, faults, status, result>>

Min(a, b) == IF a <= b THEN a ELSE b
Hts(a, n) == [i \in 1..n |-> a + i - 1]                  \* a, a+1, ..., a+n-1
Wanted == Hts(From + 1, Amount)

\* prepareRequests(from, amount, headersPerPeer)
RECURSIVE Prepare(_, _, _)
Prepare(o, a, c) == IF a = 0 THEN {} ELSE IF a < c THEN {[o |-> o, a |-> a]}
                    ELSE {[o |-> o, a |-> c]} \cup Prepare(o + c, a - c, c)

\* behaviours: what a peer sends for sub-request r, and how the session classifies it (after the repair of D7:
\* a chunk must start at the requested origin)
\* "full"        the requested headers
\* "prefix"      a non-empty proper prefix (here: the first header only)
\* "notfound"    NOT_FOUND status
\* "empty"       stream closed / timed out without a response
\* "shifted"     genuine headers of another origin (origin - 1 ...)
\* "dup"         the previous chunk again
\* "forged"      right heights, one header with a bad signature
\* "garbage"     wrong chain / fails Validate / undecodable / unknown status / reordered
Sends(r, b) ==
  CASE b = "full"    -> Hts(r.o, r.a)
    [] b = "prefix"  -> Hts(r.o, 1)
    [] b = "shifted" -> Hts(IF r.o > From + 1 THEN r.o - 1 ELSE r.o + 1, r.a)
    [] b = "dup"     -> Hts(IF r.o > From + Chunk THEN r.o - Chunk ELSE From + 1, r.a)
    [] OTHER         -> <<>>
Accepts(r, b) == b \in {"full", "prefix"} \/ (b \in {"shifted", "dup"} /\ Sends(r, b) = Hts(r.o, r.a))
IsFault(b) == b \notin {"full"}

Init ==
  /\ Amount > 0                                             \* degenerate requests are rejected up front (D6 repaired)
  /\ reqQ = Prepare(From + 1, Amount, Chunk)
  /\ peerQ = Peers /\ inflight = {} /\ got = <<>> /\ blocked = {} /\ faults = 0 /\ status = "none" /\ result = <<>>

\* handleOutgoingRequests: a waiting sub-request is paired with an available peer
Dispatch(r, p) ==
  /\ status = "none" /\ r \in reqQ /\ p \in peerQ
  /\ reqQ' = reqQ \ {r} /\ peerQ' = peerQ \ {p}
  /\ inflight' = inflight \cup {[p |-> p, o |-> r.o, a |-> r.a]}
  /\ UNCHANGED <<got, blocked, faults, status, result>>

\* doRequest: the answer arrives and is processed
Respond(x, b) ==
  /\ status = "none" /\ x \in inflight
  /\ (x.p \in Capable => b = "full")
  /\ (x.p \notin Capable => b \in Catalogue)
  /\ (IsFault(b) => faults < MaxFaults)
  /\ faults' = IF IsFault(b) THEN faults + 1 ELSE faults
  /\ inflight' = inflight \ {x}
  /\ LET r == [o |-> x.o, a |-> x.a] IN
     IF Accepts(r, b)
     THEN LET s == Sends(r, b) IN
          /\ got' = got \o s
          /\ reqQ' = IF Len(s) < r.a THEN reqQ \cup Prepare(r.o + Len(s), r.a - Len(s), r.a) ELSE reqQ
          /\ peerQ' = peerQ \cup {x.p} /\ UNCHANGED blocked
     ELSE /\ reqQ' = reqQ \cup {r} /\ UNCHANGED got
          /\ IF b = "notfound" THEN peerQ' = peerQ \cup {x.p} /\ UNCHANGED blocked       \* returned to the queue
             ELSE IF b = "empty" THEN UNCHANGED <<peerQ, blocked>>                        \* score lowered, not re-queued
             ELSE blocked' = blocked \cup {x.p} /\ UNCHANGED peerQ                        \* blockPeer
  /\ UNCHANGED <<status, result>>

\* getRangeByHeight: enough headers collected -> sort and return
Finish ==
  /\ status = "none" /\ Len(got) >= Amount
  /\ status' = "ok" /\ result' = got
  /\ UNCHANGED <<reqQ, peerQ, inflight, got, blocked, faults>>

\* the caller's context ends
CtxDone ==
  /\ status = "none"
  /\ status' = "err" /\ UNCHANGED result
  /\ UNCHANGED <<reqQ, peerQ, inflight, got, blocked, faults>>

Next ==
  \/ \E r \in reqQ, p \in peerQ : Dispatch(r, p)
  \/ \E x \in inflight, b \in Catalogue \cup {"full"} : Respond(x, b)
  \/ Finish
  \/ CtxDone

Progress ==     \* everything except the caller giving up
  \/ \E r \in reqQ, p \in peerQ : Dispatch(r, p)
  \/ \E x \in inflight, b \in Catalogue \cup {"full"} : Respond(x, b)
  \/ Finish

Spec == Init /\ [][Next]_vars
LiveSpec == Init /\ [][Progress]_vars /\ WF_vars(Progress)

-----------------------------------------------------------------------------
(* Property layer *)
SetOf(s) == {s[i] : i \in DOMAIN s}

\* C05: a returned slice is exactly From+1, From+2, ... without gaps or duplicates, below to
ResultExact ==
  status = "ok" =>
     /\ Len(result) >= 1
     /\ SetOf(result) = SetOf(Wanted) /\ Len(result) = Amount
\* every sub-request stays inside the wanted range and within the chunk size
RequestsInRange ==
  \A r \in reqQ \cup {[o |-> x.o, a |-> x.a] : x \in inflight} :
      r.a >= 1 /\ r.a <= Chunk /\ r.o >= From + 1 /\ r.o + r.a <= From + Amount + 1
\* what is outstanding and what was received partition the wanted range (no loss, no duplication)
NoLossNoDup ==
  LET out == UNION {SetOf(Hts(r.o, r.a)) : r \in reqQ \cup {[o |-> x.o, a |-> x.a] : x \in inflight}} IN
  /\ out \cup SetOf(got) = SetOf(Wanted)
  /\ out \cap SetOf(got) = {}
  /\ Len(got) = Cardinality(SetOf(got))
\* C18: with a capable peer the full range is eventually returned
EventuallyFull == <>(status = "ok")
=============================================================================
