---------------------------- MODULE SyncerTailInt ----------------------------
(***************************************************************************)
(* The integer arithmetic of sync/syncer_tail.go (estimateTailHeight and   *)
(* the two estimate branches of findTailHeight) over the full uint64 /     *)
(* int64 ranges, for Apalache (unbounded integers, one step).              *)
(* Heights are uint64 (1..2^64-1), durations are int64 nanoseconds.        *)
(* A result outside 1..headH would be a wrap-around / a tail the chain     *)
(* does not have; a division by zero is modelled by the guard DivOK.       *)
(***************************************************************************)
EXTENDS Integers

VARIABLES
  \* @type: Int;
  bt,      \* blockTime (ns), accepted by Validate when >= 0
  \* @type: Int;
  w,       \* PruningWindow (ns)
  \* @type: Int;
  tp,      \* trustingPeriod (ns) > 0
  \* @type: Int;
  headH,   \* height of the network head
  \* @type: Int;
  tailH,   \* height of the old tail
  \* @type: Int;
  diff,    \* expectedTailTime - oldTail.Time (ns)
  \* @type: Int;
  res,     \* the computed tail height
  \* @type: Bool;
  divzero  \* the code would divide by zero

MaxU64 == 18446744073709551615
MaxI64 == 9223372036854775807

\* Go: uint64(a) - uint64(b) wraps
Sub64(a, b) == IF a >= b THEN a - b ELSE a - b + MaxU64 + 1

Init ==
  /\ bt \in 0..MaxI64 /\ w \in 0..MaxI64 /\ tp \in 1..MaxI64
  /\ headH \in 1..MaxU64 /\ tailH \in 1..MaxU64 /\ tailH <= headH
  /\ diff \in (-MaxI64)..MaxI64
  /\ res = 0 /\ divzero = FALSE

\* estimateTailHeight (empty store)
Estimate ==
  /\ IF bt <= 0 THEN res' = 1 /\ divzero' = FALSE
     ELSE LET n == tp \div bt IN
          /\ res' = IF n >= headH THEN 1 ELSE Sub64(headH, n)
          /\ divzero' = FALSE
  /\ UNCHANGED <<bt, w, tp, headH, tailH, diff>>

\* findTailHeight before the refinement loop (running node)
Find ==
  /\ IF diff <= 0 THEN res' = tailH /\ divzero' = FALSE
     ELSE IF bt <= 0 THEN res' = tailH /\ divzero' = FALSE
     ELSE IF diff >= w
          THEN LET n == w \div bt IN
               /\ res' = IF n >= headH THEN tailH ELSE Sub64(headH, n)
               /\ divzero' = FALSE
          ELSE LET n == diff \div bt IN
               /\ res' = IF tailH + n > headH THEN tailH ELSE tailH + n
               /\ divzero' = FALSE
  /\ UNCHANGED <<bt, w, tp, headH, tailH, diff>>

Next == Estimate \/ Find

\* the arithmetic as it was before the repairs D4/D5/D19 (no guards): used as a self-test of the checker — Apalache
\* must refute InRange / NoDivZero for it
EstimateOld ==
  /\ IF bt = 0 THEN res' = 0 /\ divzero' = TRUE
     ELSE LET n == tp \div bt IN
          /\ res' = IF n >= headH THEN 1 ELSE Sub64(headH, n)
          /\ divzero' = FALSE
  /\ UNCHANGED <<bt, w, tp, headH, tailH, diff>>
FindOld ==
  /\ IF diff <= 0 THEN res' = tailH /\ divzero' = FALSE
     ELSE IF bt = 0 THEN res' = 0 /\ divzero' = TRUE
     ELSE IF diff >= w
          THEN res' = Sub64(headH, w \div bt) /\ divzero' = FALSE
          ELSE res' = tailH + diff \div bt /\ divzero' = FALSE
  /\ UNCHANGED <<bt, w, tp, headH, tailH, diff>>
NextOld == EstimateOld \/ FindOld

\* the estimate is a height the chain has, and never a wrapped value
InRange == res = 0 \/ (res >= 1 /\ res <= headH)
NoDivZero == ~divzero
=============================================================================
