SPECIFICATION Spec
CONSTANTS
  N = 5
  MaxG = 2
  MaxH = 2
  MaxReq = 2
  ReadOrder = "pend_store"
  Fix = "max"
INVARIANTS TypeOK HeadMonotone SubjectiveCoversStore NoSpuriousErr
PROPERTIES WrapMonotone LocalHeadMonotone Reached
CHECK_DEADLOCK FALSE
