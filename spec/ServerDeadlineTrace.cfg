INIT Init
NEXT Next
CHECK_DEADLOCK FALSE
POSTCONDITION Consumed
