INIT Init
NEXT Next
INVARIANTS PredictedAllowed NeverMoreThanMax Export
CHECK_DEADLOCK FALSE
