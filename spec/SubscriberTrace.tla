--------------------------- MODULE SubscriberTrace ---------------------------
(* C11 property layer evaluated over observations of real gossipsub nodes (harness/p2ph TestSubscriber). *)
EXTENDS Subscriber, IOUtils
Trace == ndJsonDeserialize(IOEnv.TRACE)
VARIABLE l
If(c, name) == IF c THEN {name} ELSE {}
Clauses(rec) ==
  LET i == rec.in
      o == rec.obs
  IN   If(o.delivered # ShouldAccept(i), "C11_reaches_subscriptions_exactly_when_decoded_valid_and_verified")
  \cup If(o.delivered /\ ~o.deliveredRight, "C11_delivered_value_is_that_header")
  \cup If(o.relayed # ShouldAccept(i), "C11_relayed_exactly_when_accepted")
  \cup If(ShouldAccept(i) /\ o.verdict # "accept", "C11_valid_verified_message_accepted")
  \cup If(Good(i.payload) /\ i.verifier \in {"soft", "wrapSoft"} /\ o.verdict # "ignore", "C11_soft_failure_ignored_without_penalty")
  \cup If((~Good(i.payload) \/ i.verifier \in {"hard", "wrapHard", "plain", "panic"}) /\ o.verdict # "reject", "C11_other_failures_rejected")
  \cup If(Good(i.payload) /\ i.verifier = "notset" /\ o.verdict \notin {"none", "ignore", "reject"}, "C11_unverifiable_message_not_accepted")
  \cup If(Good(i.payload) /\ i.verifier = "notset" /\ o.final \notin {"none", "ignore"}, "C11_context_expiry_before_a_verifier_is_set_does_not_penalise_the_sender")
  \cup If(o.crashed, "C11_no_crash")
TInit == l = 1 /\ in = [payload |-> "", verifier |-> ""] /\ phase = "trace" /\ out = Obs("", FALSE, FALSE)
TNext ==
  /\ l <= Len(Trace)
  /\ LET F == Clauses(Trace[l]) IN
       IF F = {} THEN TRUE ELSE PrintT(ToJson([k |-> "FAIL", l |-> l, tr |-> Trace[l].tr, preds |-> F]))
  /\ l' = l + 1 /\ UNCHANGED vars
Consumed == TLCGet("stats").diameter - 1 = Len(Trace)
=============================================================================
