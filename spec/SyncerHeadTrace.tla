--------------------------- MODULE SyncerHeadTrace ---------------------------
(* C19 property layer over recorded Syncer.Head behaviours (harness/synch TestSyncerHead). *)
EXTENDS Naturals, Sequences, FiniteSets, TLC, Json, IOUtils
Trace == ndJsonDeserialize(IOEnv.TRACE)
VARIABLES l, maxRet
If(c, name) == IF c THEN {name} ELSE {}
SetOf(s) == {s[k] : k \in DOMAIN s}
Recent(h, c, rt)  == c - h <= rt
Expired(h, c, tp) == h # 0 /\ c - h > tp
NonDecreasing(s) == \A i \in 1..(Len(s) - 1) : s[i] = 0 \/ s[i + 1] = 0 \/ s[i] <= s[i + 1]
Clauses(e, mx) ==
  IF e.op = "headseq" THEN If(~NonDecreasing(e.results), "C19_returned_heights_never_decrease")
                           \cup If(~e.started, "IMPL_race_scenario_reached_its_yield_point")
  ELSE IF e.op \notin {"head", "heads"} THEN {} ELSE
  LET sub == e.subBefore
      init == sub = 0 \/ Expired(sub, e.clock, e.tp)
      recent == ~init /\ Recent(sub, e.clock, e.rt)
      stale == ~init /\ ~recent
  IN   If(e.ret # 0 /\ e.ret < mx, "C19_returned_heights_never_decrease")
  \cup If(\E x \in SetOf(e.results) : x # 0 /\ x < mx, "C19_returned_heights_never_decrease")
  \cup If(recent /\ e.calls # 0, "C19_recent_head_returned_without_network_traffic")
  \cup If(recent /\ e.ret # sub, "C19_recent_head_returned_without_network_traffic")
  \cup If(stale /\ ~(e.calls = 1 /\ e.trusted = <<sub>>), "C19_stale_head_triggers_exactly_one_request_verified_against_it")
  \cup If(e.maxInflight > 1, "C19_concurrent_callers_share_the_single_request")
  \cup If(e.op = "heads" /\ e.started /\ e.calls > 1, "C19_concurrent_callers_share_the_single_request")
  \cup If(e.op = "heads" /\ e.started /\ Cardinality(SetOf(e.results)) > 1, "C19_concurrent_callers_share_its_result")
  \cup If(init /\ e.ret # 0 /\ Expired(e.ret, e.clock, e.tp), "C19_initialisation_adopts_only_a_non_expired_head")
  \cup If(init /\ e.ret # 0 /\ (\E x \in SetOf(e.trusted) : x # 0), "C19_initialisation_asks_the_trusted_peers")
  \cup If(init /\ e.ret = 0 /\ e.err = "", "C19_failed_initialisation_returns_an_error")
  \cup If(~init /\ e.ret = 0, "C19_non_expired_subjective_head_is_a_fallback")
Init == l = 1 /\ maxRet = 0
Next ==
  /\ l <= Len(Trace)
  /\ LET e == Trace[l]
         mx == IF e.i = 0 THEN 0 ELSE maxRet
         F == Clauses(e, mx)
     IN /\ IF F = {} THEN TRUE ELSE PrintT(ToJson([k |-> "FAIL", l |-> l, tr |-> e.tr, i |-> e.i, preds |-> F]))
        /\ maxRet' = IF e.op \in {"head", "heads"} /\ e.ret > mx THEN e.ret ELSE mx
  /\ l' = l + 1
Consumed == TLCGet("stats").diameter - 1 = Len(Trace)
=============================================================================
