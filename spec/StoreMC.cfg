CONSTANTS N = 4
 B = 2
 MaxOps = 4
 MaxBatch = 2
 Ctx = FALSE
 Faults = TRUE
 Crashes = FALSE
 Known = {}
INIT Init
NEXT Next
VIEW view
INVARIANTS TypeOK C04_RangeReadable C04_LiveReadable C04_HeadTopOfRun C04_HeightIsHead C08_GoneForGood C08_Pointers C06_DiskPointers C06_DiskTail PendImpliesInit
PROPERTIES C08_RejectsOthers C08_OutsideUntouched C08_PointersAfter C14_CallsMatchGone C14_FailureKeeps C06_CleanRestartSame
CHECK_DEADLOCK FALSE
