----------------------------- MODULE StoreTrace -----------------------------
(***************************************************************************)
(* Property layer of the Store family (C04, C06, C08, C14) evaluated over  *)
(* traces recorded from the real store.Store by harness/storeh.            *)
(*                                                                         *)
(* Every event carries the operation, its result, the OnDelete call log    *)
(* and the full observation (public API read-back + raw keys).  The        *)
(* history variables live/deleted are maintained here from the logged      *)
(* operations; each predicate below is one clause of a property statement. *)
(* A clause that fails is reported (k = "FAIL") and evaluation continues,  *)
(* so one run judges every event of every concatenated trace.              *)
(***************************************************************************)
EXTENDS Naturals, Sequences, FiniteSets, TLC, Json, IOUtils

Trace == ndJsonDeserialize(IOEnv.TRACE)

VARIABLES l, live, deleted, prev, beforeStop, retryTo, retryFail

vars == <<l, live, deleted, prev, beforeStop, retryTo, retryFail>>

SetOf(s) == {s[i] : i \in DOMAIN s}

O(o) == [head |-> o.head, tail |-> o.tail, hs |-> o.hs, R |-> SetOf(o.R), RH |-> SetOf(o.RH),
         KH |-> SetOf(o.KH), KI |-> SetOf(o.KI), HAS |-> SetOf(o.HAS), HASAT |-> SetOf(o.HASAT),
         BADGR |-> SetOf(o.BADGR), BADR |-> SetOf(o.BADR)]

Empty == [head |-> 0, tail |-> 0, hs |-> 0, R |-> {}, RH |-> {}, KH |-> {}, KI |-> {}, HAS |-> {}, HASAT |-> {},
          BADGR |-> {}, BADR |-> {}]

If(c, name) == IF c THEN {name} ELSE {}

-----------------------------------------------------------------------------
(* C04 — evaluated on every observation of a running store *)
RangeOK(o) == o.head # 0 /\ o.tail # 0 => o.tail <= o.head /\ (o.tail..o.head) \subseteq (o.R \cap o.RH)

C04(o, lv) ==
       If(~RangeOK(o), "C04_tail_le_head_and_range_readable")
  \cup If(~(lv \subseteq (o.R \cap o.RH)), "C04_every_appended_header_readable")
  \cup If(o.head # 0 /\ (o.head + 1) \in lv, "C04_head_is_top_of_contiguous_run")
  \cup If(o.HAS # o.RH, "C04_Has_agrees")
  \cup If(o.HASAT # (IF o.head # 0 /\ o.tail # 0 THEN o.tail..o.head ELSE {}), "C04_HasAt_agrees_with_range")
  \cup If(o.BADGR # {}, "C04_GetRange_exact_or_error")
  \cup If(o.BADR # {}, "C04_lookup_returns_that_header")
  \cup If(o.head # 0 /\ o.hs # o.head, "C04_Height_equals_Head")

-----------------------------------------------------------------------------
(* C08 / C14 — evaluated on DeleteRange events; p = observation before, o = after *)
Rng(e) == e.from..(e.to - 1)
Prefix(e, p) == p.head # 0 /\ p.tail # 0 /\ e.from = p.tail /\ e.from < e.to /\ e.to <= p.head + 1
Suffix(e, p) == p.head # 0 /\ p.tail # 0 /\ e.to = p.head + 1 /\ p.tail <= e.from /\ e.from < e.to
Valid(e, p)  == Prefix(e, p) \/ Suffix(e, p)
\* "no effect": nothing readable changes, Tail stays; Head may only complete a deferred advance over headers that
\* were already readable (DeleteRange starts with a Sync)
Unchanged(p, o) == /\ o.tail = p.tail /\ o.R = p.R /\ o.RH = p.RH
                   /\ \/ (o.head = p.head /\ o.hs = p.hs)
                      \/ (p.head # 0 /\ o.head > p.head /\ (p.head..o.head) \subseteq p.R)

\* heights an OnDelete handler appended while the deletion ran (reentrant use; empty otherwise)
Also(e) == IF "also" \in DOMAIN e THEN SetOf(e.also) ELSE {}
\* the top of the contiguous run that starts at h in S
Top(h, S) == CHOOSE t \in h..(h + Cardinality(S)) : (h..t) \subseteq ({h} \cup S) /\ (t + 1) \notin S

C08(e, p, o) ==
  LET rng == Rng(e)
      also == Also(e)
      out == rng \cup also IN
       If(~Valid(e, p) /\ ~(e.res # "ok" /\ Unchanged(p, o)), "C08_other_ranges_rejected_without_effect")
  \cup If(e.res = "ok" /\ rng \cap (o.R \cup o.RH \cup o.KH \cup o.KI) # {}, "C08_range_not_retrievable_after_success")
  \cup If((p.R \ out) # (o.R \ out) \/ (p.RH \ out) # (o.RH \ out), "C08_outside_untouched")
  \cup If(e.res = "ok" /\ Valid(e, p) /\
          ~(IF Prefix(e, p) /\ Suffix(e, p)
              THEN (o.head = 0 /\ o.tail = 0) \/ (o.tail = e.to /\ e.to \in o.R)
            ELSE IF Prefix(e, p) THEN o.tail = e.to /\ o.head = Top(p.head, also)
            ELSE o.head = e.from - 1 /\ o.tail = p.tail),
          "C08_head_tail_describe_remaining_chain")
  \cup If(e.res # "ok" /\ Valid(e, p) /\ o.head # 0 /\ o.tail # 0 /\
          ~(o.head \in (o.R \cap o.RH \cap o.KH) /\ o.tail \in (o.R \cap o.RH \cap o.KH) /\ o.tail <= o.head),
          "C08_partial_failure_leaves_sane_pointers")
  \cup If(retryTo # 0 /\ e.from = p.tail /\ e.to = retryTo /\ e.failAt = 0 /\ e.res # "ok", "C08_tail_retry_completes")
  \cup If(e.res = "panic", "C08_no_crash")

CallsFor(e, h, k) == {i \in DOMAIN e.calls : e.calls[i].h = h /\ e.calls[i].handler = k}

C14(e, p, o) ==
  LET rng == Rng(e)
      \* removed: no longer served by hash, or no longer served by height (a header the Store stops serving as part of
      \* its chain has been removed, whatever is left of it in the datastore)
      removed == ((p.RH \ o.RH) \cup (p.R \ o.R)) \cap rng
  IN
       If(\E h \in removed, k \in {1, 2, 3} :
             ~(Cardinality(CallsFor(e, h, k)) = 1 /\ \A i \in CallsFor(e, h, k) : e.calls[i].out = "ok"),
          "C14_each_handler_once_per_removed_header")
  \cup If(\E i \in DOMAIN e.calls : ~e.calls[i].readable, "C14_header_readable_while_handler_runs")
  \cup If(\E i \in DOMAIN e.calls : e.calls[i].out # "ok" /\
             ~(e.calls[i].h \in o.R /\ e.calls[i].h \in o.RH /\ e.res = "err"),
          "C14_failed_handler_keeps_header_and_returns_error")
  \cup If(\E i \in DOMAIN e.calls : e.calls[i].h \notin rng, "C14_no_handler_call_outside_range")
  \* (not judged when the datastore refused the final commit of a deletion that ran into its deadline: what the failed call
  \* had done is legitimately lost there, and the retry calls the handlers again)
  \cup If(~e.ctxRefused /\ \E h \in rng : h \in o.RH /\ (\A k \in {1, 2, 3} : \E i \in CallsFor(e, h, k) : e.calls[i].out = "ok"),
          "C14_header_whose_handlers_all_returned_nil_is_removed")
  \cup If(retryTo # 0 /\ retryFail # 0 /\ e.from = p.tail /\ e.to = retryTo /\ e.failAt = 0 /\
          (CallsFor(e, retryFail, 1) = {} \/ CallsFor(e, retryFail, 2) = {} \/ CallsFor(e, retryFail, 3) = {}), "C14_retry_invokes_handlers_again")

-----------------------------------------------------------------------------
(* C06 — evaluated on recover events (a fresh Store opened on a crashed image, then the continuation) *)
C06Recover(e) ==
  LET pre == IF "pre" \in DOMAIN e THEN O(e.pre) ELSE Empty
      o == O(e.obs)
      img == IF "img" \in DOMAIN e THEN SetOf(e.img) ELSE {}
      cont == IF "cont" \in DOMAIN e THEN e.cont ELSE 0
  IN   If(e.res # "ok", "C06_reopen_starts_without_error")
  \cup (IF e.res # "ok" THEN {} ELSE
            If(~RangeOK(pre), "C06_head_tail_resolve_and_range_retrievable")
       \cup If(pre.head # 0 /\ pre.head \notin pre.RH, "C06_head_pointer_resolves")
       \cup If(pre.tail # 0 /\ pre.tail \notin pre.RH, "C06_tail_pointer_resolves")
       \cup If(~(img \subseteq pre.RH), "C06_committed_headers_survive")
       \cup If((pre.head = 0 \/ (pre.head..cont) \subseteq pre.R) /\ o.head # cont + 2, "C06_continuation_advances_head")
       \cup If(~RangeOK(o), "C06_range_retrievable_after_continuation"))

-----------------------------------------------------------------------------
Init == l = 1 /\ live = {} /\ deleted = {} /\ prev = Empty /\ beforeStop = Empty /\ retryTo = 0 /\ retryFail = 0

Report(e, F) ==
  IF F = {} THEN TRUE
  ELSE PrintT(ToJson([k |-> "FAIL", l |-> l, tr |-> e.tr, i |-> e.i, op |-> e.op, preds |-> F, cfg |-> e.cfg]))

Step ==
  /\ l <= Len(Trace)
  /\ LET e     == Trace[l]
         fresh == e.i = 0
         lv0   == IF fresh THEN {} ELSE live
         dl0   == IF fresh THEN {} ELSE deleted
         p     == IF fresh THEN Empty ELSE prev
         rt    == IF fresh THEN 0 ELSE retryTo
         o     == O(e.obs)
         b     == SetOf(e.b)
         rng   == Rng(e)
     IN
     IF e.op = "recover"
     THEN /\ Report(e, C06Recover(e))
          /\ UNCHANGED <<live, deleted, prev, beforeStop, retryTo, retryFail>>
     ELSE
       LET valid == e.op = "delete" /\ Valid(e, p)
           lv1 == CASE e.op = "append" /\ e.res = "ok" -> lv0 \cup b
                    [] e.op = "delete" /\ (valid \/ e.dsFault \/ e.afterDsFault) -> (lv0 \ rng) \cup Also(e)
                    [] OTHER                           -> lv0
           dl1 == CASE e.op = "append"                 -> dl0 \ b
                    [] e.op = "delete" /\ e.res = "ok" -> dl0 \cup rng
                    [] OTHER                           -> dl0
           isUp == e.op # "stop"
           \* a datastore write failure inside DeleteRange is outside the quantifiers of C08/C14 (they range over handler
           \* failures): the failed attempt is not judged; its retry is judged as a deletion of the original range by the
           \* clauses that do not depend on the state the failure left behind
           F == IF e.dsFault THEN If(e.res = "panic", "C08_no_crash")
                     \* (a deletion that reports success although one of its datastore writes failed has still to have done its job)
                     \cup If(e.res = "ok" /\ rng \cap (o.R \cup o.RH \cup o.KH \cup o.KI) # {}, "C08_range_not_retrievable_after_success")
                     \cup If(e.res # "ok" /\ o.head # 0 /\ o.tail # 0 /\
                             ~(o.head \in (o.R \cap o.RH \cap o.KH) /\ o.tail \in (o.R \cap o.RH \cap o.KH) /\ o.tail <= o.head),
                             "C08_partial_failure_leaves_sane_pointers")
                ELSE IF e.afterDsFault
                THEN    If(e.res = "panic", "C08_no_crash")
                   \cup If(e.res = "ok" /\ rng \cap (o.R \cup o.RH \cup o.KH \cup o.KI) # {}, "C08_range_not_retrievable_after_success")
                   \cup If((p.R \ rng) # (o.R \ rng) \/ (p.RH \ rng) # (o.RH \ rng), "C08_outside_untouched")
                   \cup If(dl1 \cap (o.R \cup o.RH \cup o.KH \cup o.KI) # {}, "C08_deleted_headers_never_reappear")
                   \cup (IF e.res = "ok" THEN C04(o, lv1 \ rng) ELSE {})
                ELSE
                   (IF isUp THEN C04(o, lv1) ELSE {})
              \cup (IF e.op = "delete" THEN C08(e, p, o) \cup C14(e, p, o) ELSE {})
              \cup If(dl1 \cap (o.R \cup o.RH \cup o.KH \cup o.KI) # {}, "C08_deleted_headers_never_reappear")
              \cup If(e.op \in {"append", "sync"} /\ p.head # 0 /\ o.head < p.head, "C04_head_only_moves_forward_without_delete")
              \cup If(e.op = "start" /\ ~fresh /\ ~(o.head = beforeStop.head /\ o.tail = beforeStop.tail /\ o.R = beforeStop.R /\ o.RH = beforeStop.RH),
                      "C06_clean_restart_reports_same_head_tail_headers")
              \cup If(e.op \in {"append", "sync", "start", "stop"} /\ e.res # "ok", "C04_operation_failed_unexpectedly")
       IN /\ Report(e, F)
          /\ live' = lv1 /\ deleted' = dl1 /\ prev' = o
          /\ beforeStop' = IF e.op = "stop" THEN p ELSE beforeStop
          /\ retryTo' = IF e.op = "delete" /\ e.res # "ok" /\ Prefix(e, p) THEN e.to ELSE 0
          /\ retryFail' = IF e.op = "delete" /\ e.res # "ok" /\ Prefix(e, p) THEN e.failAt ELSE 0
  /\ l' = l + 1

Next == Step
Spec == Init /\ [][Next]_vars

\* the whole trace has been consumed
Consumed == TLCGet("stats").diameter - 1 = Len(Trace)
=============================================================================
