----------------------------- MODULE SyncerTrace -----------------------------
(* C03 / C07 property layer over recorded behaviours of the real Syncer (harness/synch TestSyncer). *)
EXTENDS Naturals, Sequences, FiniteSets, TLC, Json, IOUtils
Trace == ndJsonDeserialize(IOEnv.TRACE)
VARIABLES l, learned, lastFault, prevHead, servedTo, prevFrom
If(c, name) == IF c THEN {name} ELSE {}
Clauses(e, lrn, lf, ph, st) ==
       If(e.panicked, "C03_no_crash")
  \cup If(e.nonCanon # 0, "C03_store_holds_only_verified_chain_headers")
  \cup If(Len(e.holes) # 0 \/ Len(e.orphans) # 0, "C03_store_is_one_gap_free_run_Tail_to_Head")
  \cup If(e.e = "gossip" /\ e.kind \in {"forged", "forgedFar", "wrongchain", "future", "stale", "fork"} /\ e.res = "nil", "C03_failing_gossip_header_refused_with_error")
  \cup If(e.badStored, "C03_refused_header_never_stored")
  \cup If(e.badTarget, "C03_refused_header_never_sync_target")
  \cup If(e.head > lrn, "C03_store_never_ahead_of_verified_heads")
  \cup If(e.e = "gossip" /\ e.kind = "valid" /\ e.res # "nil", "C07_valid_network_head_is_learned")
  \cup If(e.headRet > lrn, "C03_Head_never_returns_an_unverified_header")
  \* (on real threads only after the deliveries have been collected: at the serve events)
  \cup If(~e.waiting /\ ~lf /\ ~e.free /\ (~e.rt \/ e.e = "serve") /\ ~(e.head = lrn /\ ~e.stateErr /\ e.finished /\ e.syncWait = "nil"), "C07_store_reaches_every_learned_target_State_finished_SyncWait_returns")
  \cup If(e.e = "serve" /\ e.kind \in {"error", "empty", "nonadjacent", "cancelWrapped"} /\ e.served /\ ~e.stateErr, "C07_getter_error_is_reported_by_State")
  \* e.h concurrent deliveries of different valid heads (each verifiable from the previous one): all of them are accepted
  \cup If(e.e = "collectAll" /\ e.dupNil < e.h, "C07_valid_network_head_is_learned")
  \cup If(e.e = "collectAll" /\ e.dupNil < e.h, "C15_candidate_with_verifiable_path_accepted")
  \cup If(e.e = "collectAll" /\ e.res = "blocked", "C03_delivery_terminates")
  \cup If(e.head < ph, "C07_nothing_partial_is_lost")
  \cup If(~e.waiting /\ ~e.rt /\ e.head < st, "C07_nothing_partial_is_lost")  \* every header the getter served is in the store once the attempt is over
                                                                              \* (not on real threads: "the attempt is over" is not observable there)
  \cup If(e.e = "collect" /\ e.dupNil > 1, "C03_duplicate_of_an_accepted_header_is_refused")
  \cup If(e.e = "collect" /\ e.res = "blocked", "C03_delivery_terminates")
Init == l = 1 /\ learned = 1 /\ lastFault = FALSE /\ prevHead = 1 /\ servedTo = 1 /\ prevFrom = 0
Next ==
  /\ l <= Len(Trace)
  /\ LET e == Trace[l]
         fresh == e.i = 0
         lrn0 == IF fresh THEN 1 ELSE learned
         lf0 == IF fresh THEN FALSE ELSE lastFault
         ph == IF fresh THEN 1 ELSE prevHead
         lrn1 == IF e.e = "gossip" /\ e.kind = "valid" /\ e.res = "nil" /\ e.h > lrn0 THEN e.h
                 \* a forged header far ahead is refused through bifurcation, which legitimately promotes the verified
                 \* headers below it (fetched from the trusted getter)
                 ELSE IF e.e = "gossip" /\ e.kind = "forgedFar" /\ e.h - 1 > lrn0 THEN e.h - 1
                 \* asynchronous deliveries of a valid head: from the moment it is offered the store may reach it
                 ELSE IF e.e = "gossipAsync" /\ e.kind = "valid" /\ e.h > lrn0 THEN e.h
                 \* a Head() call was answered with a verified newer head (e.h): learned, whatever Head() itself returns
                 ELSE IF e.e = "headRelease" /\ e.kind = "fresh" /\ e.h > lrn0 THEN e.h ELSE lrn0
         lf1 == IF e.e = "gossip" /\ e.kind = "valid" /\ e.res = "nil" THEN FALSE
                ELSE IF e.e = "gossipAsync" /\ e.kind = "valid" THEN FALSE
                ELSE IF e.e = "serve" /\ e.kind # "ok" /\ e.served THEN TRUE ELSE lf0
         st0 == IF fresh THEN 1 ELSE servedTo
         pf == IF fresh THEN 0 ELSE prevFrom
         st1 == IF e.e = "serve" /\ e.kind = "ok" /\ e.served /\ pf # 0 /\ pf + e.servedN > st0 THEN pf + e.servedN ELSE st0
         F == Clauses(e, lrn1, lf1, ph, st1)
     IN /\ IF F = {} THEN TRUE ELSE PrintT(ToJson([k |-> "FAIL", l |-> l, tr |-> e.tr, i |-> e.i, preds |-> F]))
        /\ learned' = lrn1 /\ lastFault' = lf1 /\ prevHead' = e.head
        /\ servedTo' = st1 /\ prevFrom' = IF e.waiting THEN e.reqFrom ELSE 0
  /\ l' = l + 1
Consumed == TLCGet("stats").diameter - 1 = Len(Trace)
=============================================================================
