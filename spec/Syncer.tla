------------------------------- MODULE Syncer -------------------------------
(***************************************************************************)
(* sync.Syncer: gossip handler, Head()-learned heads, pending ranges and   *)
(* the sync loop (sync/syncer.go: syncLoop, sync, doSync, processHeaders,  *)
(* requestHeaders; sync/syncer_head.go: incomingNetworkHead, verify,       *)
(* setLocalHead; sync/ranges.go; sync/sync_store.go) — C03 and C07.        *)
(*                                                                         *)
(* Granularity: an event (gossip delivery, served range request, clock     *)
(* step) followed by everything the syncer does until it is quiescent or   *)
(* blocked on the getter.  The store holds the canonical headers 1..sh;    *)
(* `pend` are the heights held in the pending ranges; the sync loop is     *)
(* idle or waiting for the answer to one range request.                    *)
(***************************************************************************)
EXTENDS Naturals, Sequences, FiniteSets, TLC, Json

CONSTANTS N,          \* canonical chain heights 1..N (store starts at 1)
          MaxReq,     \* header.MaxRangeRequestSize
          MaxFaults,  \* getter errors available
          MaxEvents

VARIABLES sh,         \* store head: heights 1..sh are stored
          pend,       \* heights in the pending ranges
          trig,       \* triggerSync holds a token
          lp,         \* sync loop: [st |-> "idle" | "wait", from, reqTo, to]
          serr,       \* State().Error is set
          sto,        \* State().ToHeight
          learned,    \* highest valid head learned so far
          faults, lastFault,  \* getter errors so far; whether one happened since the last learned head
          nev, hist

vars == <<sh, pend, trig, lp, serr, sto, learned, faults, lastFault, nev, hist>>
view == <<sh, pend, trig, lp, serr, sto, learned, faults, lastFault>>

Min(a, b) == IF a <= b THEN a ELSE b
MaxS(S) == IF S = {} THEN 0 ELSE CHOOSE x \in S : \A y \in S : y <= x
MinS(S) == CHOOSE x \in S : \A y \in S : x <= y
LocalHead == IF pend # {} THEN MaxS(pend) ELSE sh               \* localHead(): pending head, else store head
Idle == [st |-> "idle", from |-> 0, reqTo |-> 0, to |-> 0]

\* the first pending range (ranges.First): the run of consecutive heights starting at the lowest pending height
RECURSIVE RunFrom(_, _)
RunFrom(S, h) == IF (h + 1) \in S THEN {h} \cup RunFrom(S, h + 1) ELSE {h}
FirstRange(S) == RunFrom(S, MinS(S))

\* processHeaders from (from, to] with the pending set P, store head H: runs until a range request has to be made
\* (result st = "wait") or the sync is complete (st = "idle").  Returns the new [sh, pend, lp].
RECURSIVE Process(_, _, _, _)
Process(H, P, from, to) ==
  IF P # {} /\ MinS(P) <= to
  THEN LET r == FirstRange(P)
           hs == {h \in r : h <= to}                              \* headerRange.Get(to)
       IN IF from + 1 # MinS(hs)
          THEN [sh |-> H, pend |-> P, lp |-> [st |-> "wait", from |-> from, reqTo |-> MinS(hs) - 1, to |-> to]]   \* fill the gap first
          ELSE Process(MaxS(hs), P \ hs, MaxS(hs), to)               \* apply cached headers, remove the range
  ELSE IF from < to
       THEN [sh |-> H, pend |-> P, lp |-> [st |-> "wait", from |-> from, reqTo |-> to, to |-> to]]               \* final requestHeaders
       ELSE [sh |-> H, pend |-> P, lp |-> Idle]

Init ==
  /\ sh = 1 /\ pend = {} /\ trig = FALSE /\ lp = Idle /\ serr = FALSE /\ sto = 0 /\ learned = 1
  /\ faults = 0 /\ lastFault = FALSE /\ nev = 0 /\ hist = <<>>

\* after an event: if the loop is idle and a token is available it starts a sync (sync(), doSync())
Settle(H, P, T, L, E, TO) ==
  IF L.st = "idle" /\ T
  THEN LET subj == IF P # {} THEN MaxS(P) ELSE H IN
       IF H >= subj THEN [sh |-> H, pend |-> P, trig |-> FALSE, lp |-> Idle, serr |-> E, sto |-> TO]   \* "already synced": nothing to do
       ELSE LET r == Process(H, P, H, subj) IN
            [sh |-> r.sh, pend |-> r.pend, trig |-> FALSE, lp |-> r.lp, serr |-> IF r.lp.st = "idle" THEN FALSE ELSE E, sto |-> subj]
  ELSE [sh |-> H, pend |-> P, trig |-> T, lp |-> L, serr |-> E, sto |-> TO]

Log(rec, r) ==
  /\ nev' = nev + 1
  /\ hist' = Append(hist, [ev |-> rec, sh |-> r.sh, pend |-> r.pend, wait |-> r.lp.st = "wait", from |-> r.lp.from, reqTo |-> r.lp.reqTo,
                           serr |-> r.serr, sto |-> r.sto])

Apply(r) == sh' = r.sh /\ pend' = r.pend /\ trig' = r.trig /\ lp' = r.lp /\ serr' = r.serr /\ sto' = r.sto

\* a valid canonical head h arrives by gossip (adjacent, skipping, or needing bifurcation — all verifiable with an honest getter)
GossipValid(h) ==
  /\ nev < MaxEvents /\ h > LocalHead /\ h <= N
  /\ LET adj == h = sh + 1 /\ pend = {} /\ lp.st = "idle"          \* syncStore appends it at once
         H2 == IF adj THEN h ELSE sh
         P2 == IF adj THEN pend ELSE pend \cup {h}
         T2 == IF adj THEN trig ELSE TRUE
         r == Settle(H2, P2, T2, lp, serr, sto)
     IN Apply(r) /\ Log([e |-> "gossip", kind |-> "valid", h |-> h, res |-> "nil"], r)
  /\ learned' = h /\ lastFault' = FALSE /\ UNCHANGED faults

\* anything that must be refused: forged, wrong chain, from the future, stale or duplicate
GossipBad(kind, h) ==
  /\ nev < MaxEvents /\ h \in 1..N
  /\ (kind \in {"stale"} => h <= LocalHead) /\ (kind # "stale" => h > LocalHead)
  \* a forged header further ahead goes through bifurcation, which promotes verified intermediates on the way to
  \* refusing it (Bifurcation.tla); here the forged header is adjacent and fails at once
  /\ (kind = "forged" => h = LocalHead + 1)
  /\ LET r == [sh |-> sh, pend |-> pend, trig |-> trig, lp |-> lp, serr |-> serr, sto |-> sto] IN
     Apply(r) /\ Log([e |-> "gossip", kind |-> kind, h |-> h, res |-> "err"], r)
  /\ UNCHANGED <<learned, faults, lastFault>>

\* the getter answers the outstanding range request (from, reqTo]: k headers (k = amount: full; less: a prefix) or an error
Serve(k) ==
  /\ nev < MaxEvents /\ lp.st = "wait"
  /\ LET amount == Min(lp.reqTo - lp.from, MaxReq) IN
     /\ k \in 1..amount
     /\ LET f2 == lp.from + k
            r0 == IF f2 < lp.reqTo THEN [sh |-> f2, pend |-> pend, lp |-> [lp EXCEPT !.from = f2]]     \* next chunk of the same request
                  ELSE Process(f2, pend, f2, lp.to)
            r == Settle(r0.sh, r0.pend, trig, r0.lp, IF r0.lp.st = "idle" THEN FALSE ELSE serr, sto)
        IN Apply(r) /\ Log([e |-> "serve", kind |-> "ok", h |-> k, res |-> ""], r)
  /\ UNCHANGED <<learned, faults, lastFault>>

ServeError(kind) ==
  /\ nev < MaxEvents /\ lp.st = "wait" /\ faults < MaxFaults
  /\ LET r == Settle(sh, pend, trig, Idle, TRUE, sto) IN
     Apply(r) /\ Log([e |-> "serve", kind |-> kind, h |-> 0, res |-> ""], r)
  /\ faults' = faults + 1 /\ lastFault' = TRUE /\ UNCHANGED learned

Next ==
  \/ \E h \in 2..N : GossipValid(h)
  \/ \E kind \in {"forged", "wrongchain", "future", "stale"}, h \in 1..N : GossipBad(kind, h)
  \/ \E k \in 1..MaxReq : Serve(k)
  \/ \E kind \in {"error", "empty", "nonadjacent"} : ServeError(kind)

Spec == Init /\ [][Next]_vars
Progress == \E k \in 1..MaxReq : Serve(k) /\ k = Min(lp.reqTo - lp.from, MaxReq)      \* the honest getter answers in full
LiveSpec == Init /\ [][Next]_vars /\ WF_vars(Progress)

-----------------------------------------------------------------------------
(* Property layer *)
Quiescent == lp.st = "idle" /\ ~trig
\* C07: once quiescent, without a getter error since the last learned head, everything learned is synced
TargetReached == Quiescent /\ ~lastFault => sh = learned /\ pend = {} /\ ~serr
\* C07: a getter error loses nothing: the store never shrinks and pending heads above it are kept
NothingLost == [][sh' >= sh]_vars
PendingAboveStore == \A h \in pend : h > sh
\* C03: the store is the gap-free canonical run 1..sh and never runs past what was learned
StoreWithinLearned == sh <= learned
\* C07 liveness: with an honest getter from some point on the newest learned head is reached
\* (after a getter error the syncer waits for the next learned head: that is the only excuse for staying behind)
EventuallySynced == <>[](lastFault \/ (sh = learned /\ pend = {}))

ExportEdge == IF Len(hist) > 0 THEN PrintT(ToJson([k |-> "SYNC", n |-> N, hist |-> hist])) ELSE TRUE
=============================================================================
