---------------------------- MODULE StoreConcMC ----------------------------
EXTENDS StoreConc
\* batch scripts: contiguous, gapped, out of order, gap filled later, two batches queued
MCScriptsQuick == { << <<2>> >>, << <<3>> >>, << <<3>>, <<2>> >>, << <<2, 3>> >>, << <<3>>, <<4>> >>, << <<2>>, <<3>> >> }
MCScriptsFull  == MCScriptsQuick \cup { << <<4>>, <<2>>, <<3>> >>, << <<3, 4>>, <<2>> >>, << <<2>>, <<4>>, <<3>> >>, << <<3>>, <<2, 4>> >> }
MCReaders1 == {1}
MCReaders2 == {1, 2}
MCWants == {2, 3, 4}
MCWantsQ == {2, 3}
=============================================================================
