CONSTANT MaxLen = 0
INIT InitC01
NEXT Next
INVARIANTS PredictedAllowed01 AcceptOnlyIfAllHold RejectIsVerifyError MandatoryNeverSoft SoftIffNonAdjacentTypeReject AtDriftAccepted Export
CHECK_DEADLOCK FALSE
