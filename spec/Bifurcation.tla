----------------------------- MODULE Bifurcation -----------------------------
(***************************************************************************)
(* sync.Syncer.verify / verifyBifurcating (sync/syncer_head.go) — C15.     *)
(* Heights are relative to the subjective head (0); the candidate network  *)
(* head is at distance D.  Trust is the set of non-adjacent pairs <<a,b>>  *)
(* for which the header type's verification succeeds; adjacent canonical   *)
(* headers always verify; a forged header fails softly when non-adjacent   *)
(* and hard when adjacent.                                                 *)
(***************************************************************************)
EXTENDS Naturals, Sequences, FiniteSets, TLC, Json

CONSTANTS MaxD,          \* distances 1..MaxD (1: an adjacent candidate for which the header type itself reports a soft failure)
          AllTrustUpTo,  \* every trust predicate is enumerated up to this distance
          MaxR           \* beyond it: interval predicates b - a <= R for R in 1..MaxR

VARIABLES in, phase, out
vars == <<in, phase, out>>

Pairs(d) == {<<a, b>> \in (0..d) \X (0..d) : a + 1 < b}
Interval(d, r) == {p \in Pairs(d) : p[2] - p[1] <= r}

Inputs ==
  LET TrustsOf(d) == IF d <= AllTrustUpTo THEN SUBSET Pairs(d) ELSE {Interval(d, r) : r \in 1..MaxR} IN
  UNION {{[d |-> d, trust |-> t, forged |-> f, failAt |-> k, badMid |-> m, adjSoft |-> as] :
             t \in TrustsOf(d), f \in BOOLEAN, k \in 0..3, m \in {0} \cup (IF d <= 4 THEN 1..(d - 1) ELSE {}),
             as \in (IF d <= 4 THEN BOOLEAN ELSE {FALSE})} : d \in 1..MaxD}

\* header.Verify(trusted a, untrusted b) for b forged or canonical
Ver(i, a, b, forgedB) ==
  IF b <= a THEN "hard"                                         \* ErrKnownHeader
  ELSE IF b = a + 1 THEN (IF forgedB THEN (IF i.adjSoft THEN "soft" ELSE "hard") ELSE "ok")   \* adjSoft: the type itself reports soft
  ELSE IF forgedB THEN "soft"
  ELSE IF <<a, b>> \in i.trust THEN "ok" ELSE "soft"

Out(res, why, calls, prom) == [res |-> res, why |-> why, calls |-> calls, prom |-> prom]

\* verifyBifurcating, literally
RECURSIVE Bif(_, _, _, _, _)
Bif(i, subj, diff, calls, prom) ==
  LET cand   == subj + diff \div 2
      calls1 == Append(calls, cand)
  IN
  IF Len(calls1) = i.failAt THEN Out("refused", "getter", calls1, prom)
  ELSE LET v == Ver(i, subj, cand, cand = i.badMid /\ cand # 0) IN
       IF v = "hard" THEN Out("refused", "hard", calls1, prom)
       ELSE IF v = "soft" THEN Bif(i, subj, diff \div 2, calls1, prom)
       ELSE LET prom1 == Append(prom, cand)
                v2 == Ver(i, cand, i.d, i.forged)
            IN IF v2 = "ok" THEN Out("accepted", "", calls1, prom1)
               ELSE IF i.d - cand <= 1 THEN Out("refused", "failed", calls1, prom1)
               ELSE Bif(i, cand, i.d - cand, calls1, prom1)

\* Syncer.verify: direct verification first
Predicted(i) ==
  LET v == Ver(i, 0, i.d, i.forged) IN
  IF v = "ok" THEN Out("accepted", "", <<>>, <<>>)
  ELSE IF v = "hard" THEN Out("refused", "hard", <<>>, <<>>)
  ELSE Bif(i, 0, i.d, <<>>, <<>>)

\* property layer
RECURSIVE Log2(_)
Log2(n) == IF n <= 1 THEN 0 ELSE 1 + Log2(n \div 2)
Bound(d) == d * (Log2(d) + 1)

GetterFailed(i, o) == i.failAt # 0 /\ Len(o.calls) >= i.failAt
\* every promoted intermediate is canonical and verified from the previous subjective head
PromotedVerified(i, o) ==
  \A k \in DOMAIN o.prom :
     LET x == o.prom[k]
         prev == IF k = 1 THEN 0 ELSE o.prom[k - 1]
     IN x # i.badMid /\ x > prev /\ x < i.d /\ Ver(i, prev, x, FALSE) = "ok"
        /\ \E j \in DOMAIN o.calls : o.calls[j] = x

Allowed(i, o) ==
  /\ (o.res = "accepted" => ~i.forged)
  /\ (~i.forged /\ ~GetterFailed(i, o) /\ i.badMid = 0 => o.res = "accepted")
  /\ (i.forged => o.res = "refused")
  /\ (GetterFailed(i, o) => o.res = "refused")
  /\ Len(o.calls) <= Bound(i.d)
  /\ PromotedVerified(i, o)

Init == in \in Inputs /\ phase = "in" /\ out = Out("", "", <<>>, <<>>)
Next == phase = "in" /\ phase' = "out" /\ out' = Predicted(in) /\ UNCHANGED in
PredictedAllowed == phase = "out" => Allowed(in, out)
Export == phase = "out" => PrintT(ToJson([k |-> "C15", in |-> [d |-> in.d, trust |-> in.trust, forged |-> in.forged, failAt |-> in.failAt, badMid |-> in.badMid, adjSoft |-> in.adjSoft],
                                          predicted |-> out]))
=============================================================================
