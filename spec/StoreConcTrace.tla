--------------------------- MODULE StoreConcTrace ---------------------------
(***************************************************************************)
(* Property layer of C12 (and the monotonicity clause of C17) evaluated    *)
(* over the outcome records written by harness/conch after each replayed   *)
(* schedule: which headers had been appended, and for every reader what it *)
(* returned, whether it was still blocked once the writer was idle, and    *)
(* whether cancelling its context released it.                             *)
(***************************************************************************)
EXTENDS Naturals, Sequences, FiniteSets, TLC, Json, IOUtils

Trace == ndJsonDeserialize(IOEnv.TRACE)
VARIABLE l
SetOf(s) == {s[i] : i \in DOMAIN s}
If(c, name) == IF c THEN {name} ELSE {}

NonDecreasing(s) == \A i \in 1..(Len(s) - 1) : s[i] <= s[i + 1]

ReaderClauses(rec, x) ==
  LET app == SetOf(rec.appended)          \* ever appended
      sto == SetOf(rec.stored)            \* appended and not removed by a whole-store deletion since
  IN
  IF ~x.started THEN {} ELSE
       If(x.badHeader, "C12_returns_the_header_of_that_height")
  \cup If(x.res = "ok" /\ x.want \notin app, "C12_returns_the_header_of_that_height")
  \cup If(x.res = "notfound" /\ (x.want \in sto \/ x.want > rec.height), "C12_notfound_only_for_absent_height_at_or_below_Height")
  \cup If(x.blockedAfter /\ x.want \in sto /\ x.want <= rec.head, "C12_wakes_once_the_header_is_stored")
  \cup If(x.blockedAfter /\ x.want \in sto /\ x.want > rec.head, "C12_wakes_once_a_noncontiguous_header_is_stored")
  \cup If(x.blockedAfter /\ ~x.releasedByCtx, "C12_cancelled_context_releases_caller")
  \cup If(x.res = "ctx" /\ ~x.cancelledMid /\ ~x.blockedAfter, "C12_context_error_without_cancellation")
  \cup If(x.res \notin {"ok", "notfound", "ctx", "blocked", "none"}, "C12_unexpected_error")

\* C17 — un-gated real-thread runs (2..4 writers, 2 observers, optional tail-side deleter)
StressClauses(rec) ==
       If(\E i \in DOMAIN rec.headseqs : ~NonDecreasing(rec.headseqs[i]), "C17_Head_never_decreases")
  \cup If(\E i \in DOMAIN rec.hsseqs : ~NonDecreasing(rec.hsseqs[i]), "C17_Height_never_decreases")
  \cup If(rec.headBad # 0, "C17_Head_header_retrievable_by_height_and_hash")
  \cup If(rec.syncedBad # 0, "C17_appended_then_synced_header_readable")
  \cup If(rec.finalHead # rec.n \/ rec.finalHs # rec.n, "C17_final_state_equals_sequential_execution")
  \cup If(Len(rec.missing) # 0 \/ rec.finalTail = 0 \/ rec.finalTail > rec.finalHead, "C17_gap_free_chain_after_racing_tail_delete")
  \cup If(rec.finalTail # rec.tailWant, "C17_tail_is_where_the_last_successful_delete_left_it")
  \cup If(rec.restartHead # rec.finalHead \/ rec.restartTail # rec.finalTail, "C17_final_state_survives_a_clean_restart")
  \cup If(rec.errors # 0, "C17_operation_failed_unexpectedly")

\* C06 — free schedules with a Stop in the middle, then a fresh Store on the same datastore
StopClauses(rec) ==
       If(rec.stopHung, "C06_Stop_returns")
  \cup If(rec.reopenErr # "", "C06_reopen_starts_without_error")
  \cup If(Len(rec.lost) # 0, "C06_clean_restart_keeps_every_header_whose_Append_returned_before_Stop")
  \cup If(rec.headBelowRun, "C04_head_is_top_of_contiguous_run")

\* C17 — free schedules: appenders that Sync and re-read, a racing tail-side deleter, final state
FreeC17Clauses(rec) ==
       If(rec.syncedBad # 0, "C17_appended_then_synced_header_readable")
  \cup If(rec.syncedBad # 0, "C04_every_appended_header_retrievable_once_its_callers_Sync_returned")
  \cup If(rec.restartHead # rec.head \/ rec.restartTail # rec.finalTail, "C17_final_state_survives_a_clean_restart")
  \cup If(Len(rec.missing) # 0 \/ rec.finalTail = 0 \/ rec.finalTail > rec.head, "C17_gap_free_chain_after_racing_tail_delete")
  \cup If(rec.finalTail # rec.tailWant, "C17_tail_is_where_the_last_successful_delete_left_it")
  \cup If(rec.head # rec.headWant, "C17_store_equals_a_sequential_execution_of_the_same_appends")
  \cup If(rec.tailBad # 0, "C17_gap_free_chain_after_racing_tail_delete")

\* C12 — a store filled, wiped as a whole and filled again with a shorter chain: Height follows Head down, a reader above it waits
RefillClauses(rec) ==
       If(rec.refillEarly # "none", "C12_blocks_for_a_height_above_the_current_Height")
  \cup If(rec.refillFinal # "ok", "C12_wakes_once_the_header_is_stored")
  \cup If(rec.height # rec.head, "C12_Height_is_the_height_of_Head_after_a_refill")

Kind(rec) == IF "kind" \in DOMAIN rec THEN rec.kind ELSE ""
Clauses(rec) ==
  IF Kind(rec) = "stress" THEN StressClauses(rec)
  ELSE IF Kind(rec) = "stop" THEN StopClauses(rec)
  ELSE IF Kind(rec) = "refill" THEN RefillClauses(rec)
  ELSE UNION {ReaderClauses(rec, rec.readers[i]) : i \in DOMAIN rec.readers}
  \cup If(~NonDecreasing(rec.headseq), "C17_Head_never_decreases")
  \cup If(~NonDecreasing(rec.hsseq), "C17_Height_never_decreases")
  \cup (IF Kind(rec) = "c17free" THEN FreeC17Clauses(rec) ELSE {})

\* which readers a failing clause belongs to (reader id -> its failing clauses), for the cause signature
FailingReaders(rec) ==
  IF Kind(rec) \in {"stress", "stop", "refill"} THEN <<>>
  ELSE [i \in DOMAIN rec.readers |-> ReaderClauses(rec, rec.readers[i])]

Late(rec) ==
  IF Kind(rec) \in {"stress", "stop", "refill"} THEN <<>>
  ELSE [i \in DOMAIN rec.readers |-> rec.readers[i].subAfterNotify]

Init == l = 1
Next ==
  /\ l <= Len(Trace)
  /\ LET F == Clauses(Trace[l]) IN
       IF F = {} THEN TRUE ELSE PrintT(ToJson([k |-> "FAIL", l |-> l, tr |-> Trace[l].tr, preds |-> F, readers |-> FailingReaders(Trace[l]), late |-> Late(Trace[l])]))
  /\ l' = l + 1
Consumed == TLCGet("stats").diameter - 1 = Len(Trace)
=============================================================================
