CONSTANTS RT = 2
 TP = 6
 MaxClock = 24
 MaxSteps = 5
SPECIFICATION Spec
VIEW view
INVARIANTS RecentNoTraffic StaleOneTrustedRequest InitOnlyNonExpired SubjNeverAhead
PROPERTIES Monotone
CONSTRAINT ExportEdge
CHECK_DEADLOCK FALSE
