----------------------------- MODULE ServerConc -----------------------------
(***************************************************************************)
(* p2p/server.go: handleRangeRequest is not one read of the store but a    *)
(* sequence of them — HasAt(to-1), then (only if that height is missing)   *)
(* Head(), then GetRange(from, to') — and the Store changes underneath it  *)
(* while a node syncs and prunes: the head grows, the tail recedes when    *)
(* older headers are back-filled, the tail advances when they are pruned.  *)
(* Server.tla is the decision table over a store that stands still; this   *)
(* module lets ONE store mutation happen between two consecutive store     *)
(* calls of one request and states what C10 still promises: the server     *)
(* reads no more than the requested heights, and an OK answer is origin,   *)
(* origin+1, ... of headers the store held at some moment of the request   *)
(* (a shorter prefix only if it ends at a head the store had then).        *)
(*                                                                         *)
(* Variant = "hasAtFrom" is the handler that decides "below the tail" by a *)
(* second HasAt(from) instead of comparing with the one Head() value: it   *)
(* must be refuted (self-test): a back-fill between the two HasAt calls    *)
(* makes it serve everything up to the head.                               *)
(***************************************************************************)
EXTENDS Naturals, Sequences, FiniteSets, TLC, Json

CONSTANT Variant          \* "code" | "hasAtFrom"
MaxReq == 64

VARIABLES in, phase, out
vars == <<in, phase, out>>

Muts == {"none", "grow1", "grow3", "backfill1", "backfill2", "prune1", "prune2"}
Stores == {[tail |-> 3, head |-> 6], [tail |-> 5, head |-> 8], [tail |-> 1, head |-> 4]}

Inputs == {[tail |-> s.tail, head |-> s.head, origin |-> o, amount |-> a, m |-> m, pos |-> p] :
              s \in Stores, o \in 1..10, a \in 1..4, m \in Muts, p \in 1..3}
Valid(i) == /\ i.origin <= i.head + 2
            /\ (i.m = "none" => i.pos = 1)
            /\ (i.m \in {"backfill1"} => i.tail >= 2) /\ (i.m \in {"backfill2"} => i.tail >= 3)
            /\ (i.m = "prune1" => i.tail + 1 <= i.head) /\ (i.m = "prune2" => i.tail + 2 <= i.head)
            /\ (Variant = "code" => i.pos <= 2)

Mut(s, m) == CASE m = "grow1"     -> [s EXCEPT !.head = @ + 1]
               [] m = "grow3"     -> [s EXCEPT !.head = @ + 3]
               [] m = "backfill1" -> [s EXCEPT !.tail = @ - 1]
               [] m = "backfill2" -> [s EXCEPT !.tail = @ - 2]
               [] m = "prune1"    -> [s EXCEPT !.tail = @ + 1]
               [] m = "prune2"    -> [s EXCEPT !.tail = @ + 2]
               [] OTHER           -> s
After(s, i, k) == IF i.pos = k THEN Mut(s, i.m) ELSE s     \* the store after the k-th store call of the request
HasAt(s, x) == x # 0 /\ x >= s.tail /\ x <= s.head
Hts(a, b) == [j \in 1..(b - a) |-> a + j - 1]
Resp(status, hs, spans, seen) == [status |-> status, heights |-> hs, spans |-> spans, seen |-> seen]
GetRange(s, a, b, seen) ==
  IF a >= s.tail /\ b - 1 <= s.head THEN Resp("ok", Hts(a, b), << <<a, b>> >>, seen)
  ELSE Resp("notfound", <<>>, << <<a, b>> >>, seen)

\* implementation layer: the handler in code order, the store read at each call being the store of that moment
Predicted(i) ==
  LET from == i.origin
      to   == i.origin + i.amount
      s0 == [tail |-> i.tail, head |-> i.head]
      s1 == After(s0, i, 1)
  IN
  IF HasAt(s0, to - 1) THEN GetRange(s1, from, to, {s0, s1})
  ELSE IF Variant = "code"
       THEN LET hd == s1.head
                s2 == After(s1, i, 2)
            IN IF hd < from THEN Resp("notfound", <<>>, <<>>, {s0, s1})
               ELSE IF hd >= to - 1 THEN Resp("notfound", <<>>, <<>>, {s0, s1})
               ELSE GetRange(s2, from, hd + 1, {s0, s1, s2})
       ELSE LET s2 == After(s1, i, 2)
                hd == s2.head
                s3 == After(s2, i, 3)
            IN IF ~HasAt(s1, from) THEN Resp("notfound", <<>>, <<>>, {s0, s1})
               ELSE GetRange(s3, from, hd + 1, {s0, s1, s2, s3})

\* property layer
BoundedWork(i, spans) ==
  \A j \in DOMAIN spans : /\ spans[j][2] - spans[j][1] <= MaxReq
                          /\ spans[j][1] >= i.origin /\ spans[j][2] <= i.origin + i.amount
\* the stores the request may have seen: the initial one and the one after the scripted mutation
Seen(i) == {[tail |-> i.tail, head |-> i.head], Mut([tail |-> i.tail, head |-> i.head], i.m)}
ExactPrefixConc(i, hs) ==
  LET k == Len(hs) IN
  /\ k >= 1
  /\ \A j \in 1..k : hs[j] = i.origin + j - 1 /\ \E s \in Seen(i) : HasAt(s, hs[j])
  /\ (k = i.amount \/ (k < i.amount /\ \E s \in Seen(i) : i.origin + k - 1 = s.head))
AllowedResp(i, r) ==
  /\ r.status \in {"ok", "notfound", "reset"}
  /\ (r.status # "ok" => r.heights = <<>>)
  /\ (r.status = "ok" => ExactPrefixConc(i, r.heights))
  /\ BoundedWork(i, r.spans)

Init == in \in {i \in Inputs : Valid(i)} /\ phase = "in" /\ out = Resp("", <<>>, <<>>, {})
Next == phase = "in" /\ phase' = "out" /\ out' = Predicted(in) /\ UNCHANGED in

PredictedAllowed == phase = "out" => AllowedResp(in, out)
Export == phase = "out" => PrintT(ToJson([k |-> "C10C", in |-> in,
                                         predicted |-> [status |-> out.status, heights |-> out.heights, spans |-> out.spans]]))
=============================================================================
