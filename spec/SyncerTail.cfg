CONSTANTS MaxH = 10
 Known = {}
INIT Init
NEXT Next
INVARIANTS Export
CHECK_DEADLOCK FALSE
