CONSTANTS MaxH = 10
 Known = {}
INIT Init
NEXT Next
INVARIANTS PredictedAllowed Export
CHECK_DEADLOCK FALSE
