CONSTANTS From = 1
 Amount = 5
 Chunk = 2
 Peers <- MCPeers3
 Catalogue <- MCBenign
 Capable <- MCCap1
 MaxFaults = 3
SPECIFICATION LiveSpec
INVARIANTS ResultExact RequestsInRange NoLossNoDup
PROPERTIES EventuallyFull
CHECK_DEADLOCK FALSE
