CONSTANTS Setters = {"S1", "S2"}
 Waiters = {"W1"}
 MaxH = 2
 MaxG = 2
 UseCAS = TRUE
 WithInit = FALSE
SPECIFICATION LiveSpec
PROPERTIES EventuallyReturns
CHECK_DEADLOCK FALSE
