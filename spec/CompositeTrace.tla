--------------------------- MODULE CompositeTrace ---------------------------
(***************************************************************************)
(* Property layer over harness/p2ph TestComposite: a real sync.Syncer over *)
(* a real Store whose getter is the real p2p.Exchange, answered by a       *)
(* scripted peer.  One record = one Syncer.Head() call on a stale (not     *)
(* expired) subjective head, with the peer tracker populated or empty.     *)
(***************************************************************************)
EXTENDS Naturals, Sequences, FiniteSets, TLC, Json, IOUtils

Trace == ndJsonDeserialize(IOEnv.TRACE)
VARIABLE l
If(c, name) == IF c THEN {name} ELSE {}

Clauses(r) ==
       If(r.panicked, "C19_no_crash")
  \cup If(r.err, "C19_non_expired_subjective_head_is_a_fallback")
  \cup If(~r.err /\ ~(r.retCanon /\ r.ret >= r.subj), "C19_returned_head_is_verified_against_the_subjective_head")
  \cup If(r.again # 0 /\ ~(r.againCanon /\ r.again >= r.ret), "C19_returned_heights_never_decrease")
  \cup If(r.answer # "newer" /\ ~r.err /\ r.ret # r.subj, "C19_answer_that_fails_verification_is_not_adopted")
  \cup If(r.answer = "newer" /\ ~r.err /\ r.ret # r.subj + 3, "C19_verified_newer_head_is_returned")
  \cup If(r.headReqs # 1, "C19_stale_head_triggers_exactly_one_head_request")
  \cup If(r.stored, "C03_refused_header_never_stored")
  \cup If(r.answer \in {"forgedNext", "forgedFar"} /\ (r.stored \/ ~r.retCanon \/ (r.again # 0 /\ ~r.againCanon)),
          "C15_candidate_without_a_verifiable_path_is_refused")

Init == l = 1
Next == /\ l <= Len(Trace)
        /\ LET F == Clauses(Trace[l]) IN
             IF F = {} THEN TRUE ELSE PrintT(ToJson([k |-> "FAIL", l |-> l, tr |-> Trace[l].tr, preds |-> F]))
        /\ l' = l + 1
Consumed == TLCGet("stats").diameter - 1 = Len(Trace)
=============================================================================
