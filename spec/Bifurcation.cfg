CONSTANTS MaxD = 8
 AllTrustUpTo = 4
 MaxR = 3
INIT Init
NEXT Next
INVARIANTS PredictedAllowed Export
CHECK_DEADLOCK FALSE
