CONSTANTS MaxD = 2
 AllTrustUpTo = 2
 MaxR = 1
INIT TInit
NEXT TNext
CHECK_DEADLOCK FALSE
POSTCONDITION Consumed
