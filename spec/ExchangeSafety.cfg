CONSTANTS From = 1
 Amount = 5
 Chunk = 2
 Peers <- MCPeers3
 Catalogue <- MCByz
 Capable <- MCNone
 MaxFaults = 3
SPECIFICATION Spec
INVARIANTS ResultExact RequestsInRange NoLossNoDup
CHECK_DEADLOCK FALSE
