--------------------------- MODULE BifurcationTrace ---------------------------
(* C15 property layer over deliveries of soft-failing candidates to the real Syncer (harness/synch TestBifurcation). *)
EXTENDS Bifurcation, IOUtils
Trace == ndJsonDeserialize(IOEnv.TRACE)
VARIABLE l
If(c, name) == IF c THEN {name} ELSE {}
SetOfT(s) == {<<s[k][1], s[k][2]>> : k \in DOMAIN s}
Clauses(rec) ==
  LET i == [d |-> rec.in.d, trust |-> SetOfT(rec.in.trust), forged |-> rec.in.forged, failAt |-> rec.in.failAt, badMid |-> rec.in.badMid, adjSoft |-> rec.in.adjSoft]
      o == [res |-> rec.obs.res, why |-> "", calls |-> rec.obs.calls, prom |-> rec.obs.prom]
  IN   If(rec.obs.hung, "C15_search_terminates")
  \cup If(rec.obs.panicked, "C15_no_crash")
  \cup If(o.res = "accepted" /\ i.forged, "C15_forged_candidate_refused")
  \cup If(~i.forged /\ ~GetterFailed(i, o) /\ i.badMid = 0 /\ o.res # "accepted", "C15_candidate_with_verifiable_path_accepted")
  \cup If(GetterFailed(i, o) /\ o.res # "refused", "C15_candidate_whose_intermediates_cannot_be_fetched_is_refused")
  \cup If(Len(o.calls) > Bound(i.d), "C15_bounded_number_of_getter_requests")
  \cup If(~PromotedVerified(i, o), "C15_only_verified_intermediates_promoted")
  \cup If(o.res = "refused" /\ rec.obs.headIsCandidate, "C15_refused_candidate_never_becomes_sync_target")
TInit == l = 1 /\ in = [d |-> 0] /\ phase = "trace" /\ out = Out("", "", <<>>, <<>>)
TNext == /\ l <= Len(Trace)
         /\ LET F == Clauses(Trace[l]) IN IF F = {} THEN TRUE ELSE PrintT(ToJson([k |-> "FAIL", l |-> l, tr |-> Trace[l].tr, preds |-> F]))
         /\ l' = l + 1 /\ UNCHANGED vars
Consumed == TLCGet("stats").diameter - 1 = Len(Trace)
=============================================================================
