CONSTANTS MaxPeers = 3
 MaxTrustedPeers = 3
INIT Init
NEXT Next
INVARIANTS PredictedAllowed QuorumArithmetic Export
CHECK_DEADLOCK FALSE
