CONSTANTS N = 3
 B = 1
 MaxOps = 4
 MaxBatch = 2
 Ctx = FALSE
 Faults = FALSE
 Crashes = FALSE
 Known = {"KF-C16-overprune", "KF-C16-tail-above-head"}
INIT Init
NEXT Next
VIEW view
INVARIANTS TypeOK C04_RangeReadable C04_LiveReadable C04_HeadTopOfRun C04_HeightIsHead C08_GoneForGood C08_Pointers C06_DiskPointers C06_DiskTail PendImpliesInit C06_ContinuationAdvances
CHECK_DEADLOCK FALSE
CONSTRAINT ExportEdge
