CONSTANTS Peers = {1, 2, 3}
 MaxSize = 2
 MaxAwait = 1
 MaxTime = 3
 MaxEvents = 6
 Kinds = {"full", "limited"}
 Atomic = FALSE
INIT Init
NEXT Next
VIEW view
INVARIANTS TypeOK OneRecord TrackedAreConnected BlockedNotTracked ConnectedAreTracked RecordsHaveScore
PROPERTIES ScoreKept PruneOnlyExpired
CHECK_DEADLOCK FALSE
