CONSTANTS N = 3
 B = 2
 MaxOps = 4
 MaxBatch = 2
 Ctx = FALSE
 Faults = TRUE
 Crashes = FALSE
 Known = {}
INIT Init
NEXT Next
VIEW view
CONSTRAINT ExportEdge
INVARIANTS TypeOK C04_RangeReadable C04_LiveReadable C04_HeadTopOfRun C04_HeightIsHead C08_GoneForGood C08_Pointers C06_DiskPointers C06_DiskTail PendImpliesInit
CHECK_DEADLOCK FALSE
