CONSTANTS MaxH = 10
 Known = {}
INIT TInit
NEXT TNext
CHECK_DEADLOCK FALSE
POSTCONDITION Consumed
