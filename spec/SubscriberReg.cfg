SPECIFICATION Spec
CONSTANTS
  Waiters = {w1, w2, w3}
  Order = "write_close"
INVARIANTS TypeOK ConsultsRegistered PublishedBeforeRelease
PROPERTIES AllJudged
CHECK_DEADLOCK FALSE
