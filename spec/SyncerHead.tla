----------------------------- MODULE SyncerHead -----------------------------
(***************************************************************************)
(* sync.Syncer.Head (sync/syncer_head.go: Head, networkHead,               *)
(* subjectiveHead, isRecent, isExpired; sync/sync_head.go: syncHead        *)
(* single flight) — C19.                                                   *)
(*                                                                         *)
(* Time in ticks; the canonical chain produces one header per tick, so     *)
(* the header of height h has time h and the chain tip at clock c is c.    *)
(* s = height (= time) of the subjective head, 0 = empty store.            *)
(***************************************************************************)
EXTENDS Naturals, Sequences, FiniteSets, TLC, Json

CONSTANTS RT,        \* recency threshold (ticks)
          TP,        \* trusting period (ticks)
          MaxClock,  \* bound
          MaxSteps

VARIABLES clock, s, last, nsteps, hist
vars == <<clock, s, last, nsteps, hist>>
view == <<clock, s>>

Recent(h, c)  == c - h <= RT               \* isRecent
Expired(h, c) == h # 0 /\ c - h > TP       \* isExpired (zero header is not expired)

\* what the trusted peers answer to a head request at clock c, relative to the subjective head s
AnswerKinds == {"fresh", "stale", "expired", "lower", "error"}
AnswerH(kind, c, sub) ==
  CASE kind = "fresh"   -> c
    [] kind = "stale"   -> IF c > RT + 1 THEN c - RT - 1 ELSE 1
    [] kind = "expired" -> IF c > TP + 1 THEN c - TP - 1 ELSE 0
    [] kind = "lower"   -> IF sub > 1 THEN sub - 1 ELSE 1
    [] OTHER            -> 0

\* one Head() call: returned height (0 = error), number of getter head requests, whether the request carried
\* WithTrustedHead, and the new subjective head
HeadCall(kind, c, sub) ==
  LET x == AnswerH(kind, c, sub) IN
  IF sub = 0 \/ Expired(sub, c)
  THEN \* subjective (re)initialisation from the trusted peers, without a trusted head
       IF kind = "error" \/ x = 0 THEN [ret |-> 0, calls |-> 1, trusted |-> FALSE, s |-> sub, path |-> "init"]
       ELSE IF Expired(x, c) THEN [ret |-> 0, calls |-> 1, trusted |-> FALSE, s |-> sub, path |-> "init"]
       ELSE IF x <= sub THEN [ret |-> sub, calls |-> 1, trusted |-> FALSE, s |-> sub, path |-> "init"]   \* cannot happen: x non-expired => x > sub
       ELSE [ret |-> x, calls |-> 1, trusted |-> FALSE, s |-> x, path |-> "init"]
  ELSE IF Recent(sub, c) THEN [ret |-> sub, calls |-> 0, trusted |-> FALSE, s |-> sub, path |-> "recent"]
  ELSE \* stale: one request verified against the subjective head
       IF kind = "error" \/ x = 0 \/ x <= sub THEN [ret |-> sub, calls |-> 1, trusted |-> TRUE, s |-> sub, path |-> "stale"]
       ELSE [ret |-> x, calls |-> 1, trusted |-> TRUE, s |-> x, path |-> "stale"]

Init == clock = 1 /\ s = 0 /\ last = [op |-> "none"] /\ nsteps = 0 /\ hist = <<>>

Step(rec, c2, s2) ==
  /\ nsteps < MaxSteps
  /\ clock' = c2 /\ s' = s2 /\ nsteps' = nsteps + 1
  /\ last' = rec
  /\ hist' = Append(hist, rec)

Advance(d) == clock + d <= MaxClock /\ Step([op |-> "advance", d |-> d, kind |-> "", k |-> 0, pred |-> [ret |-> 0, calls |-> 0, trusted |-> FALSE, s |-> s, path |-> ""]], clock + d, s)

HeadOp(kind) ==
  LET r == HeadCall(kind, clock, s) IN Step([op |-> "head", d |-> 0, kind |-> kind, k |-> 1, pred |-> r], clock, r.s)

\* k concurrent callers: they share the single request in flight and its result
Heads(kind, k) ==
  LET r == HeadCall(kind, clock, s) IN Step([op |-> "heads", d |-> 0, kind |-> kind, k |-> k, pred |-> r], clock, r.s)

\* a new canonical head arrives by gossip (the chain tip) and is adjacent or verifiable: it becomes the subjective head
Gossip == s # 0 /\ clock > s /\ Step([op |-> "gossip", d |-> 0, kind |-> "", k |-> 0, pred |-> [ret |-> 0, calls |-> 0, trusted |-> FALSE, s |-> clock, path |-> ""]], clock, clock)

Next ==
  \/ \E d \in {1, RT + 1, TP + 1} : Advance(d)
  \/ \E kind \in AnswerKinds : HeadOp(kind)
  \/ \E kind \in AnswerKinds, k \in {2, 3} : Heads(kind, k)
  \/ Gossip

Spec == Init /\ [][Next]_vars

\* property layer (design level)
Monotone == [][(last'.op \in {"head", "heads"} /\ last'.pred.ret # 0) => last'.pred.ret >= s]_vars
RecentNoTraffic == last.op \in {"head", "heads"} /\ last.pred.path = "recent" => last.pred.calls = 0
StaleOneTrustedRequest == last.op \in {"head", "heads"} /\ last.pred.path = "stale" => last.pred.calls = 1 /\ last.pred.trusted
InitOnlyNonExpired == last.op \in {"head", "heads"} /\ last.pred.path = "init" /\ last.pred.ret # 0 => ~Expired(last.pred.ret, clock) /\ ~last.pred.trusted
SubjNeverAhead == s <= clock

ExportEdge == IF Len(hist) > 0 THEN PrintT(ToJson([k |-> "C19", rt |-> RT, tp |-> TP, hist |-> hist])) ELSE TRUE
=============================================================================
