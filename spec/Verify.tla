------------------------------- MODULE Verify -------------------------------
(***************************************************************************)
(* header.Verify and header.VerifyRange (verify.go) as decision tables.    *)
(*                                                                         *)
(* Implementation layer: Predicted* transcribe the checks in code order.   *)
(* Property layer:       Allowed* is the set of observations the statement *)
(*                       of C01 / C02 permits.                             *)
(* TLC enumerates the whole abstract input space as initial states, checks *)
(* Predicted \in Allowed plus the named invariants, and exports every case *)
(* (with Allowed and Predicted) for replay against the Go code.            *)
(***************************************************************************)
EXTENDS Naturals, Sequences, FiniteSets, TLC, Json

CONSTANTS MaxLen      \* C02: maximal length of the untrusted range

VARIABLES fam,        \* "C01" | "C02"
          in,         \* abstract input
          phase,      \* "in" -> "out"
          out         \* predicted observation (implementation layer)

vars == <<fam, in, phase, out>>

-----------------------------------------------------------------------------
(* Shared vocabulary *)

SentOrder == <<"ErrZeroHeader", "ErrWrongChainID", "ErrKnownHeader", "ErrUnorderedTime", "ErrFromFuture">>
Sentinels == {SentOrder[i] : i \in 1..Len(SentOrder)}

RECURSIVE JoinFrom(_, _)
JoinFrom(S, i) ==           \* canonical comma-joined rendering of a set of sentinels
  IF i > Len(SentOrder) THEN ""
  ELSE LET rest == JoinFrom(S, i + 1)
       IN  IF SentOrder[i] \in S
           THEN IF rest = "" THEN SentOrder[i] ELSE SentOrder[i] \o "," \o rest
           ELSE rest
Join(S) == JoinFrom(S, 1)

-----------------------------------------------------------------------------
(* C01: Verify(trusted, untrusted) *)

HRel    == {"lt", "eq", "plus1", "gt1"}           \* untrusted height vs trusted height
TRel    == {"before", "equal", "after"}           \* untrusted time vs trusted time
NowRel  == {"within", "atDrift", "beyond"}        \* untrusted time vs now+clockDrift
TypeRes == {"nil", "plain", "bareHard", "bareSoft", "wrapHard", "wrapSoft"}

C01Inputs == [tZero : BOOLEAN, uZero : BOOLEAN, chainEq : BOOLEAN,
              hRel : HRel, tRel : TRel, nowRel : NowRel, typeRes : TypeRes]

\* observation of one call: ok (nil error), ve (top-level *VerifyError), sent (joined sentinels that
\* errors.Is matches), type (errors.Is the type-level error), soft (SoftFailure)
Obs(ok, ve, sent, type, soft) == [ok |-> ok, ve |-> ve, sent |-> sent, type |-> type, soft |-> soft]

\* implementation layer: verify() in code order, then the type-level check and soft classification
FirstMandatory(i) ==
  IF i.tZero \/ i.uZero          THEN "ErrZeroHeader"
  ELSE IF ~i.chainEq             THEN "ErrWrongChainID"
  ELSE IF i.hRel \in {"lt","eq"} THEN "ErrKnownHeader"
  ELSE IF i.tRel = "before"      THEN "ErrUnorderedTime"
  ELSE IF i.nowRel = "beyond"    THEN "ErrFromFuture"
  ELSE "none"

PredictedC01(i) ==
  LET m == FirstMandatory(i) IN
  IF m # "none" THEN Obs(FALSE, TRUE, m, FALSE, FALSE)
  ELSE IF i.typeRes = "nil" THEN Obs(TRUE, FALSE, "", FALSE, FALSE)
  ELSE Obs(FALSE, TRUE, "", TRUE,
           (i.hRel = "gt1") \/ (i.typeRes \in {"bareSoft", "wrapSoft"}))

\* property layer
FailedSet(i) ==
  IF i.tZero \/ i.uZero THEN {"ErrZeroHeader"}   \* nothing else is defined on a zero header
  ELSE (IF ~i.chainEq THEN {"ErrWrongChainID"} ELSE {})
       \cup (IF i.hRel \in {"lt","eq"} THEN {"ErrKnownHeader"} ELSE {})
       \cup (IF i.tRel = "before" THEN {"ErrUnorderedTime"} ELSE {})
       \cup (IF i.nowRel = "beyond" THEN {"ErrFromFuture"} ELSE {})

ExpectSoft(i) == (i.hRel = "gt1") \/ (i.typeRes \in {"bareSoft", "wrapSoft"})

AllowedC01(i) ==
  LET F == FailedSet(i) IN
  IF F = {} /\ i.typeRes = "nil" THEN {Obs(TRUE, FALSE, "", FALSE, FALSE)}
  ELSE IF F # {} THEN {Obs(FALSE, TRUE, Join(S), FALSE, FALSE) : S \in (SUBSET F) \ {{}}}
  ELSE {Obs(FALSE, TRUE, "", TRUE, ExpectSoft(i))}

-----------------------------------------------------------------------------
(* C02: VerifyRange(trusted, seq) — elements are kinds relative to the rolling cursor *)

Kinds == {"ok1", "ok2", "same", "lower", "zero", "wrongchain", "timeback", "future", "typehard", "typesoft"}

C02Inputs == [tZero : BOOLEAN, seq : UNION {[1..n -> Kinds] : n \in 0..MaxLen}]

ElemOK(k, pos) == k = "ok1" \/ (k = "ok2" /\ pos = 1)   \* first element may be non-adjacent

RECURSIVE GoodPrefix(_, _)
GoodPrefix(s, pos) ==       \* number of leading elements that verify and are adjacent
  IF pos > Len(s) THEN 0
  ELSE IF ElemOK(s[pos], pos) THEN 1 + GoodPrefix(s, pos + 1) ELSE 0

ErrOfKind(k) ==
  CASE k = "same" -> "ErrKnownHeader" [] k = "lower" -> "ErrKnownHeader"
    [] k = "zero" -> "ErrZeroHeader"  [] k = "wrongchain" -> "ErrWrongChainID"
    [] k = "timeback" -> "ErrUnorderedTime" [] k = "future" -> "ErrFromFuture"
    [] k = "typehard" -> "type" [] k = "typesoft" -> "typesoft"
    [] k = "ok2" -> "ErrNonAdjacentRange" [] OTHER -> "?"

RObs(n, nilerr, cls) == [n |-> n, nilerr |-> nilerr, cls |-> cls]

PredictedC02(i) ==
  IF Len(i.seq) = 0 THEN RObs(0, FALSE, "ErrEmptyRange")
  ELSE IF i.tZero THEN RObs(0, FALSE, "ErrZeroHeader")
  ELSE LET n == GoodPrefix(i.seq, 1) IN
       IF n = Len(i.seq) THEN RObs(n, TRUE, "") ELSE RObs(n, FALSE, ErrOfKind(i.seq[n + 1]))

\* property layer: exactly the verified adjacent prefix; nil error iff whole non-empty input returned.
\* (the error class is not part of the statement — any class is allowed)
MaxGood(i) == IF i.tZero THEN 0 ELSE GoodPrefix(i.seq, 1)
AllowedN(i) == {MaxGood(i)}
AllowedNil(i, n) == (n = Len(i.seq) /\ n > 0)

-----------------------------------------------------------------------------
Init ==
  /\ phase = "in"
  /\ \/ fam = "C01" /\ in \in C01Inputs /\ out = Obs(FALSE, FALSE, "", FALSE, FALSE)
     \/ fam = "C02" /\ in \in C02Inputs /\ out = RObs(0, FALSE, "")

InitC01 == Init /\ fam = "C01"
InitC02 == Init /\ fam = "C02"

Evaluate ==
  /\ phase = "in"
  /\ phase' = "out"
  /\ out' = IF fam = "C01" THEN PredictedC01(in) ELSE PredictedC02(in)
  /\ UNCHANGED <<fam, in>>

Next == Evaluate
Spec == Init /\ [][Next]_vars

-----------------------------------------------------------------------------
(* Invariants — C01 *)
Done01 == fam = "C01" /\ phase = "out"

PredictedAllowed01 == Done01 => out \in AllowedC01(in)
AcceptOnlyIfAllHold ==
  Done01 /\ out.ok =>
     /\ ~in.tZero /\ ~in.uZero /\ in.chainEq /\ in.hRel \in {"plus1", "gt1"}
     /\ in.tRel # "before" /\ in.nowRel # "beyond" /\ in.typeRes = "nil"
RejectIsVerifyError == Done01 /\ ~out.ok => out.ve
MandatoryNeverSoft  == Done01 /\ out.sent # "" => ~out.soft
SoftIffNonAdjacentTypeReject ==
  Done01 /\ ~out.ok /\ out.sent = "" => (out.soft <=> ExpectSoft(in))
AtDriftAccepted == \* the boundary now+clockDrift itself is not "from the future"
  Done01 /\ in.nowRel = "atDrift" => out.sent # "ErrFromFuture"

(* Invariants — C02 *)
Done02 == fam = "C02" /\ phase = "out"

PredictedAllowed02 == Done02 => out.n \in AllowedN(in) /\ out.nilerr = AllowedNil(in, out.n)
IsPrefix02         == Done02 => out.n <= Len(in.seq)
PrefixVerified     == Done02 => \A p \in 1..out.n : ElemOK(in.seq[p], p)
FirstFailingOut    == Done02 /\ out.n < Len(in.seq) /\ ~in.tZero => ~ElemOK(in.seq[out.n + 1], out.n + 1)
NilIffWhole        == Done02 => (out.nilerr <=> (out.n = Len(in.seq) /\ out.n > 0))
EmptyIsError       == Done02 /\ Len(in.seq) = 0 => ~out.nilerr
LaterGapRefused    == Done02 => \A p \in 2..out.n : in.seq[p] # "ok2"

(* Export *)
Export ==
  phase = "out" =>
    IF fam = "C01"
    THEN PrintT(ToJson([k |-> "C01", in |-> in, predicted |-> out, allowed |-> AllowedC01(in)]))
    ELSE PrintT(ToJson([k |-> "C02", tZero |-> in.tZero, seq |-> in.seq, predicted |-> out,
                        allowedN |-> AllowedN(in), allowedNil |-> AllowedNil(in, out.n)]))
=============================================================================
