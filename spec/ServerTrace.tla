----------------------------- MODULE ServerTrace -----------------------------
(* C10 property layer evaluated over (request, observed response, observed store usage) records
   written by harness/p2ph TestServer. *)
EXTENDS Server, IOUtils

Trace == ndJsonDeserialize(IOEnv.TRACE)
VARIABLE l
If(c, name) == IF c THEN {name} ELSE {}

Clauses(rec) ==
  LET i == rec.in
      r == rec.obs
  IN   IF rec.stalled
       THEN If(rec.hung \/ rec.elapsedMs > rec.budgetMs + 1000, "C10_does_not_hang_beyond_timeouts")
         \cup If(r.status = "ok", "C10_reply_is_ok_notfound_or_reset_with_true_store_data")
       ELSE
       If(rec.hung, "C10_does_not_hang_beyond_timeouts")
  \cup If(r.status \notin {"ok", "notfound", "reset", "hung"}, "C10_reply_is_ok_notfound_or_reset_with_true_store_data")
  \cup If(r.status # "ok" /\ Len(r.heights) # 0, "C10_reply_is_ok_notfound_or_reset_with_true_store_data")
  \cup If(i.kind = "range" /\ i.origin # 0 /\ r.status = "ok" /\ ~ExactPrefix(i, r.heights), "C10_ok_is_exactly_origin_origin_plus_1_in_order")
  \cup If(i.kind = "range" /\ i.origin # 0 /\ ~BoundedWork(i, r.spans), "C10_reads_no_more_than_the_requested_heights")
  \cup If(Len(r.heights) > MaxReq \/ rec.reads > 4 * MaxReq + 16, "C10_never_more_than_MaxRangeRequestSize_headers")
  \cup If(i.kind = "range" /\ i.origin = 0 /\ i.amount # 0 /\ ~(r.status = "ok" /\ r.heights = <<i.head>>), "C10_head_request_returns_current_head")
  \cup If(i.kind = "range" /\ i.origin = 0 /\ r.status = "ok" /\ r.heights # <<i.head>>, "C10_head_request_returns_current_head")
  \cup If(i.kind = "hash" /\ i.hk = "known" /\ ~(r.status = "ok" /\ r.heights = <<i.tail + 1>>), "C10_hash_request_returns_that_header")
  \cup If(i.kind = "hash" /\ i.hk # "known" /\ r.status = "ok", "C10_hash_request_returns_that_header")
  \cup If(i.kind = "garbage" /\ r.status = "ok", "C10_garbage_is_not_answered_with_data")

TInit == l = 1 /\ in = [kind |-> ""] /\ phase = "trace" /\ out = Resp("", <<>>, <<>>)
TNext ==
  /\ l <= Len(Trace)
  /\ LET F == Clauses(Trace[l]) IN
       IF F = {} THEN TRUE ELSE PrintT(ToJson([k |-> "FAIL", l |-> l, tr |-> Trace[l].tr, preds |-> F]))
  /\ l' = l + 1
  /\ UNCHANGED vars
Consumed == TLCGet("stats").diameter - 1 = Len(Trace)
=============================================================================
