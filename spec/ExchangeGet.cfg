CONSTANT MaxPeers = 2
INIT Init
NEXT Next
INVARIANTS PredictedAllowed Export
CHECK_DEADLOCK FALSE
